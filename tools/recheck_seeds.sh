#!/bin/bash
# Re-runs the static checks against every kept seed (patched scratch worktree; nothing executed)
# and rewrites detected_by_static_checks in its meta.json.  usage: tools/recheck_seeds.sh [id-glob]
PAT=${1:-*}
run_one() {
  d=$1; id=$(basename $d)
  WT=/tmp/wt-recheck-$id
  git -C /repo worktree remove --force $WT >/dev/null 2>&1
  git -C /repo worktree add -q --detach $WT HEAD || return
  if git -C $WT apply $d/patch.diff 2>/dev/null; then
    FGA_REPO=$WT VERIF_NOCACHE=1 /verif/bin/fgalint all 2>/dev/null | grep -E "\[violated\]|BLIND" > /var/tmp/recheck-$id.txt
    python3 - $d/meta.json /var/tmp/recheck-$id.txt <<'PY'
import json,sys
m=json.load(open(sys.argv[1])); v=[l.strip() for l in open(sys.argv[2]) if l.strip()]
m['detected_by_static_checks']=v; m['detected']=any('[violated]' in x for x in v)
json.dump(m,open(sys.argv[1],'w'),indent=1)
print(m['id'], 'DETECTED' if m['detected'] else 'missed', '|', ' ; '.join(x[:110] for x in v[:2]))
PY
  else
    echo "$id: patch no longer applies"
  fi
  rm -f /var/tmp/recheck-$id.txt
  git -C /repo worktree remove --force $WT >/dev/null 2>&1
}
export -f run_one
ls -d /verif/seeded/$PAT | xargs -P 4 -I{} bash -c 'run_one {}'

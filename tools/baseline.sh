#!/bin/bash
# Runs the repository's pinned test command and compares with /root/.vp/BASELINE.json stable_pass.
# usage: tools/baseline.sh [repo-dir] ; exits 0 when no stable test regressed.
REPO=${1:-/repo}
OUT=$(mktemp -d /var/tmp/baseline.XXXXXX)
( cd "$REPO" && go test -mod=mod -json -vet=off -count=1 -timeout 25m ./... ) > "$OUT/run.json" 2>"$OUT/stderr.txt"
python3 - "$OUT/run.json" <<'PY'
import json,sys
b=json.load(open('/root/.vp/BASELINE.json'))
stable=set(b['stable_pass']); flaky=set(b.get('flaky',[]))
passed,failed=set(),set()
for line in open(sys.argv[1],errors='replace'):
    line=line.strip()
    if not line.startswith('{'): continue
    try: ev=json.loads(line)
    except Exception: continue
    a=ev.get('Action'); t=ev.get('Test'); p=ev.get('Package','')
    if t is None or a not in('pass','fail'): continue
    (passed if a=='pass' else failed).add(p+'::'+t)
passed-=failed
missing=sorted(stable-passed-flaky)
print(f"stable={len(stable)} passed_now={len(passed)} failed_now={len(failed)} stable_missing={len(missing)}")
for m in missing[:40]: print("  MISSING", m, "(failed)" if m in failed else "(not run)")
sys.exit(1 if missing else 0)
PY
rc=$?
rm -rf "$OUT"
exit $rc

#!/bin/bash
# Re-analyses every kept behaviour-preserving edit (/verif/benign/*/patch.diff) in a scratch worktree with the
# current binary; any violated/blind obligation is a false alarm of the checker.  usage: tools/recheck_benign.sh [glob]
PAT=${1:-*}
ls -d /verif/benign/$PAT | xargs -P 3 -I{} bash -c 'd={}; /verif/tools/check_benign.sh $d $(basename $d) 2>&1 | cut -c1-300' | sort > /var/tmp/recheck_benign.txt
grep -c ": silent" /var/tmp/recheck_benign.txt
grep -v ": silent" /var/tmp/recheck_benign.txt
! grep -q "ALARM" /var/tmp/recheck_benign.txt

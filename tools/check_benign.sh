#!/bin/bash
# usage: tools/check_benign.sh <dir-with-patch.diff> <id>
# Applies a behaviour-preserving edit in a scratch worktree, analyses it (nothing executed), and reports any
# violated or blind obligation: each is a false alarm of the checker.  Stores the edit under /verif/benign/<id>/.
D=$1; ID=$2
WT=/tmp/wt-benign-$ID
git -C /repo worktree remove --force $WT >/dev/null 2>&1
git -C /repo worktree add -q --detach $WT HEAD || exit 2
trap 'git -C /repo worktree remove --force $WT >/dev/null 2>&1' EXIT
if ! git -C $WT apply $D/patch.diff 2>/dev/null; then echo "$ID: patch does not apply"; exit 0; fi
( cd $WT && PATH=/opt/veriftools/go1.26.8/bin:$PATH GOFLAGS=-mod=mod GOPROXY=off GOTOOLCHAIN=local go build ./... ) >/dev/null 2>&1 || { echo "$ID: does not build"; exit 0; }
RAW=$(FGA_REPO=$WT VERIF_NOCACHE=1 /verif/bin/fgalint all 2>&1); RC=$?
OUT=$(echo "$RAW" | grep -E "\[violated\]|BLIND|^panic:|^goroutine ")
if [ $RC -ne 0 ] && [ -z "$OUT" ]; then OUT="tool exit $RC: $(echo "$RAW" | tail -3)"; fi
mkdir -p /verif/benign/$ID; [ "$(readlink -f $D)" != "/verif/benign/$ID" ] && { cp $D/patch.diff /verif/benign/$ID/; [ -f $D/notes.md ] && cp $D/notes.md /verif/benign/$ID/; }
if [ -z "$OUT" ]; then
  echo "$ID: silent"
  echo '{"id":"'$ID'","alarms":[]}' > /verif/benign/$ID/meta.json
else
  echo "$ID: ALARM"; echo "$OUT" | cut -c1-300
  python3 - "$ID" <<PY
import json,sys
out="""$OUT"""
json.dump({"id":sys.argv[1],"alarms":[l.strip() for l in out.splitlines() if l.strip()]},open('/verif/benign/%s/meta.json'%sys.argv[1],'w'),indent=1)
PY
fi

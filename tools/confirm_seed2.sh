#!/bin/bash
# usage: tools/confirm_seed.sh <out-dir-with-patch.diff+demo_test.go+demo_dir.txt> <seed-id> <property>
# Confirms a seeded change in a scratch worktree: applies, builds, demo fails with / passes without,
# stable tests of the touched packages still pass; then runs the static checks against the patched tree.
set -u
OUT=$1; ID=$2; PROP=$3
WT=/tmp/wt-confirm-$ID
LOG=$(mktemp /var/tmp/confirm.XXXXXX)
git -C /repo worktree remove --force $WT >/dev/null 2>&1
git -C /repo worktree add -q --detach $WT HEAD || exit 2
cleanup() { git -C /repo worktree remove --force $WT >/dev/null 2>&1; rm -f $LOG; }
trap cleanup EXIT
cd $WT
DEMODIR=$(cat $OUT/demo_dir.txt 2>/dev/null | tr -d '[:space:]')
res() { echo "RESULT $ID: $*"; }
git apply --check $OUT/patch.diff || { res "patch does not apply"; exit 1; }
# 1. without the change: demo passes
if [ -n "$DEMODIR" ] && [ -f $OUT/demo_test.go ]; then
  cp $OUT/demo_test.go $DEMODIR/zz_seed_demo_test.go
  go test -vet=off -count=1 -run "$(grep -o '^func Test[A-Za-z0-9_]*' $OUT/demo_test.go | sed 's/func //' | paste -sd'|')" ./$DEMODIR/ > $LOG 2>&1
  if ! grep -q "^ok" $LOG; then res "demo does not pass WITHOUT the change"; tail -20 $LOG; exit 1; fi
  DEMO_WITHOUT=pass
else
  DEMO_WITHOUT=none
fi
# 2. with the change
git apply $OUT/patch.diff
go build ./... > $LOG 2>&1 || { res "does not build"; tail $LOG; exit 1; }
if [ "$DEMO_WITHOUT" = pass ]; then
  go test -vet=off -count=1 -run "$(grep -o '^func Test[A-Za-z0-9_]*' $OUT/demo_test.go | sed 's/func //' | paste -sd'|')" ./$DEMODIR/ > $LOG 2>&1
  if grep -q "^ok" $LOG; then res "demo PASSES with the change (not a demonstration)"; exit 1; fi
  DEMO_WITH=fail
else
  DEMO_WITH=none
fi
rm -f $DEMODIR/zz_seed_demo_test.go
# 3. existing tests of touched packages (stable ones must still pass)
PKGS=$(grep '^+++ b/' $OUT/patch.diff | sed 's|^+++ b/||' | xargs -n1 dirname | sort -u | sed 's|^|./|' | tr '\n' ' ')
go test -mod=mod -json -vet=off -count=1 $PKGS > $LOG.json 2>/dev/null
python3 - $LOG.json "$PKGS" <<'PY'
import json,sys
b=json.load(open('/root/.vp/BASELINE.json')); stable=set(b['stable_pass']); flaky=set(b.get('flaky',[]))
passed,failed,pk=set(),set(),set()
for line in open(sys.argv[1],errors='replace'):
    if not line.startswith('{'): continue
    try: ev=json.loads(line)
    except Exception: continue
    a=ev.get('Action'); t=ev.get('Test'); p=ev.get('Package','')
    pk.add(p)
    if t is None or a not in('pass','fail'): continue
    (passed if a=='pass' else failed).add(p+'::'+t)
passed-=failed
want={s for s in stable if s.split('::')[0] in pk}
missing=sorted(want-passed-flaky)
print(f"existing tests of touched packages: stable={len(want)} passed={len(passed)} regressions={len(missing)}")
for m in missing[:10]: print("  REGRESSION", m)
sys.exit(1 if missing else 0)
PY
TESTS_OK=$?
rm -f $LOG.json
if [ $TESTS_OK -ne 0 ]; then res "existing tests regress with the change"; exit 1; fi
# 4. static checks on the patched tree
FGA_REPO=$WT VERIF_NOCACHE=1 /verif/bin/fgalint all 2>/dev/null | grep -E "^== |\[violated\]|BLIND" | grep -B1 -E "violated|BLIND" | grep -v "^--" > $LOG
DET=$(grep -c "\[violated\]" $LOG)
echo "--- static checks on patched tree:"; cat $LOG | cut -c1-260
res "confirmed demo_without=$DEMO_WITHOUT demo_with=$DEMO_WITH tests_ok=yes detected_obligations=$DET"
SD=/verif/seeded/$ID; mkdir -p $SD; cp $OUT/patch.diff $SD/; [ -f $OUT/demo_test.go ] && cp $OUT/demo_test.go $SD/demo_test.go.txt; [ -f $OUT/demo_dir.txt ] && cp $OUT/demo_dir.txt $SD/; [ -f $OUT/notes.md ] && cp $OUT/notes.md $SD/notes.md
python3 - "$ID" "$PROP" "$DET" "$LOG" "${4:-}" <<PY2
import json,sys,re
id,prop,det,log,needs=sys.argv[1:6]
viol=[l.strip() for l in open(log) if "[violated]" in l]
meta={"id":id,"property":prop,"breaks":prop,"needs_to_manifest":needs or "see notes.md","confirmed":{"patch_applies":True,"builds":True,"demo_without_change":"pass","demo_with_change":"fail","stable_tests_of_touched_packages":"pass"},"ran":["tools/confirm_seed.sh (scratch worktree: git apply, go build ./..., go test -run <demo> with and without the change, go test of touched packages vs BASELINE stable_pass, fgalint all on the patched tree)"],"detected_by_static_checks":viol,"detected":len(viol)>0}
json.dump(meta,open("/verif/seeded/%s/meta.json"%id,"w"),indent=1)
PY2
exit 0

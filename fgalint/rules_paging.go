package main

// C14: pagination consistency (SQL statements, memory ordering, token handling in the commands).

import (
	"fmt"
	"go/types"
	"strings"

	"golang.org/x/tools/go/ssa"
)

type pageShape struct {
	key, op, order, limit string
	guards                string
	ok                    bool
	why                   string
	st                    *sqlStmt
}

func pagingShape(st *sqlStmt) (pageShape, bool) {
	var ps pageShape
	ps.st = st
	found := false
	for _, w := range st.Wheres {
		if !strings.Contains(w.Text, "Pagination.From") {
			continue
		}
		found = true
		if len(w.Keys) != 1 {
			ps.why = "token predicate constrains " + strings.Join(w.Keys, ",")
			continue
		}
		// AddFromUlid contributes two alternative predicates (Gt / Lt) chosen by the sort direction
		if ps.key != "" && ps.key != w.Keys[0] {
			ps.why = "token predicates on different columns"
		}
		ps.key = w.Keys[0]
		ps.guards += "[" + strings.Join(w.Guards, "&&") + "]"
		if ps.op == "" {
			ps.op = w.Op
		} else if ps.op != w.Op {
			ps.op = ps.op + "|" + w.Op
		}
	}
	if !found {
		return ps, false
	}
	// And-composed predicates (ListStores): find the element with Pagination.From
	if ps.key == "" {
		for _, w := range st.Wheres {
			if w.Op != "And" {
				continue
			}
			for _, part := range strings.Split(strings.TrimSuffix(strings.TrimPrefix(w.Text, "And["), "]"), "; ") {
				if strings.Contains(part, "Pagination.From") {
					i := strings.Index(part, "{")
					j := strings.Index(part, "=")
					if i > 0 && j > i {
						ps.op = part[:i]
						ps.key = part[i+1 : j]
						ps.why = ""
					}
				}
			}
		}
	}
	if len(st.OrderBy) > 0 {
		ps.order = st.OrderBy[0]
	}
	for _, l := range st.Limit {
		switch {
		case strings.Contains(l, "PageSize+1"):
			ps.limit = "size+1"
		case strings.Contains(l, "PageSize"):
			ps.limit = "size"
		default:
			ps.limit = l
		}
	}
	return ps, true
}

func judgePaging(ps pageShape) (bool, string) {
	if ps.why != "" {
		return false, ps.why
	}
	ord := strings.ToLower(ps.order)
	ord = strings.ReplaceAll(ord, "\\\"", "\"")
	col := ord
	desc := false
	both := strings.Contains(ord, "phi(") // direction chosen at run time ("ulid asc" | "ulid desc")
	if both {
		col = "ulid"
		if !strings.Contains(ord, "ulid asc") || !strings.Contains(ord, "ulid desc") {
			return false, "order column is not ulid in both directions: " + ps.order
		}
	} else {
		f := strings.Fields(ord)
		if len(f) == 0 {
			return false, "paginated statement has no ORDER BY"
		}
		col = f[0]
		for _, x := range f[1:] {
			if x == "desc" {
				desc = true
			}
		}
	}
	if col != ps.key {
		return false, fmt.Sprintf("continuation token is compared with column %q but rows are ordered by %q: pages skip or repeat rows", ps.key, col)
	}
	if both {
		if ps.op != "Gt|Lt" && ps.op != "Lt|Gt" {
			return false, "bidirectional order needs Gt for ascending and Lt for descending, got " + ps.op
		}
		if ps.limit != "size" {
			return false, "exclusive token predicate must be paired with LIMIT pageSize (token = last returned row), got limit " + ps.limit
		}
		return true, fmt.Sprintf("token on %s, %s, order both directions, limit %s", ps.key, ps.op, ps.limit)
	}
	switch ps.op {
	case "GtOrEq", "Gt":
		if desc {
			return false, "ascending token predicate with descending order"
		}
	case "LtOrEq", "Lt":
		if !desc {
			return false, "descending token predicate with ascending order"
		}
	default:
		return false, "unexpected token predicate " + ps.op
	}
	incl := ps.op == "GtOrEq" || ps.op == "LtOrEq"
	if incl && ps.limit != "size+1" {
		return false, "inclusive token predicate (token = first row of the next page) must be paired with LIMIT pageSize+1, got " + ps.limit
	}
	if !incl && ps.limit != "size" {
		return false, "exclusive token predicate (token = last returned row) must be paired with LIMIT pageSize, got " + ps.limit
	}
	return true, fmt.Sprintf("token on %s, %s, order %q, limit %s", ps.key, ps.op, ps.order, ps.limit)
}

func rulePagingSQL(e *Engine, r *Reporter) {
	r.Rule("sql-pagination-consistent", "in every paginated SQL statement the continuation token is compared with the ORDER BY column, in the matching direction, and inclusive/exclusive comparison is paired with LIMIT pageSize+1 / pageSize", 10)
	byMethod := map[string]map[string]string{}
	for _, st := range e.allSQLStatements() {
		ps, ok := pagingShape(st)
		if !ok {
			continue
		}
		good, d := judgePaging(ps)
		key := fmt.Sprintf("%s %s %s", fname(st.Top), st.Verb, table(st))
		r.Check(good, key, e.pos(st.Root.Pos()), d, d+" — "+oneLine(st.render()))
		m := st.Top.Name()
		be := short(pkgOf(st.Top))
		if byMethod[m] == nil {
			byMethod[m] = map[string]string{}
		}
		ord := strings.ReplaceAll(ps.order, " collate \\\"C\\\"", "")
		byMethod[m][be] = fmt.Sprintf("key=%s op=%s order=%s limit=%s when=%s", ps.key, ps.op, ord, ps.limit, ps.guards)
	}
	r.Rule("sql-pagination-siblings", "sqlite, mysql and postgres page each list method the same way (token column, comparison, order, limit shape)", 4)
	for m, bes := range byMethod {
		vals := map[string]bool{}
		for _, v := range bes {
			vals[v] = true
		}
		r.Check(len(vals) == 1 && len(bes) == 3, "paging of "+m, "", sortedMap(bes), "the SQL backends page this method differently (or one of them lost its token predicate): "+sortedMap(bes))
	}
}

func ruleMemorySortLast(e *Engine, r *Reporter) {
	r.Rule("memory-order-before-slice", "memory ListStores / ReadAuthorizationModels sort the complete, already filtered result before the offset token is applied (no element is added or removed after the sort)", 2)
	for _, m := range []string{"ListStores", "ReadAuthorizationModels"} {
		fn := e.Func("pkg/storage/memory", "MemoryBackend."+m)
		var sorts []ssa.Instruction
		eachInstr(fn, false, func(in ssa.Instruction) {
			if isSortCall(in) {
				sorts = append(sorts, in)
			}
		})
		if len(sorts) == 0 {
			r.Bad("memory."+m, e.pos(fn.Pos()), "no sort: offset tokens index an unordered (map-iteration order) list, so pages repeat and skip items")
			continue
		}
		ok := true
		var bad ssa.Instruction
		elem := ""
		if res := fn.Signature.Results(); res.Len() > 0 {
			if sl, isSl := res.At(0).Type().Underlying().(*types.Slice); isSl {
				elem = typeBaseName(sl.Elem())
			}
		}
		for _, s := range sorts {
			reach, _ := reachable(fn, s, func(in ssa.Instruction) bool {
				c, isCall := in.(*ssa.Call)
				if !isCall {
					return false
				}
				b, isB := c.Call.Value.(*ssa.Builtin)
				if !isB || b.Name() != "append" {
					return false
				}
				sl, isSl := c.Type().Underlying().(*types.Slice)
				return isSl && typeBaseName(sl.Elem()) == elem
			}, cutSpec{})
			if reach {
				ok = false
				bad = s
			}
		}
		pos := e.pos(fn.Pos())
		if bad != nil {
			pos = e.instrPos(bad)
		}
		r.Check(ok, "memory."+m, pos, "sort is the last operation on the result set before slicing", "the result list is rebuilt after the sort (filter applied after ordering): the offset token then indexes a list whose order depends on the request, so pages skip or repeat items")
	}
}

// ruleTokenHandling: tokens are decoded (and for ReadChanges type-checked) before the backend call.
// The decode / deserialise steps may live in Execute itself or in a helper Execute calls (one level): then the
// obligation splits into "the helper succeeds only behind the check" and "Execute reaches the backend only behind
// the helper's success".
func ruleTokenHandling(e *Engine, r *Reporter) {
	r.Rule("token-decoded-and-checked", "each paging command passes the backend a position obtained from Encoder.Decode of the request token, returns an error when decoding fails, and ReadChanges additionally reaches the backend with a token only when the token's type equals the requested type", 5)
	type spec struct{ typ, backendMethod string }
	type site struct {
		h    *ssa.Function       // function containing the call
		call ssa.CallInstruction // the Decode / Deserialize call
		via  ssa.CallInstruction // call in Execute to h (nil when h is Execute)
	}
	errOf := func(c ssa.CallInstruction) func(Fact) bool {
		return func(f Fact) bool {
			if f.Kind != "nil" || !f.Positive || !isErrorType(f.X.Type()) {
				return false
			}
			return derivesFrom(f.X, func(v ssa.Value) bool {
				if v == c.(ssa.Value) {
					return true
				}
				ex, ok := v.(*ssa.Extract)
				return ok && ex.Tuple == c.(ssa.Value)
			})
		}
	}
	okRet := func(in ssa.Instruction) bool {
		ret, ok := in.(*ssa.Return)
		if !ok {
			return false
		}
		if len(ret.Results) > 0 {
			last := ret.Results[len(ret.Results)-1]
			if isErrorType(last.Type()) && !isNilConst(last) {
				return false
			}
		}
		return true
	}
	for _, s := range []spec{{"ReadQuery", "ReadPage"}, {"ReadChangesQuery", "ReadChanges"}, {"ListStoresQuery", "ListStores"}, {"ReadAuthorizationModelsQuery", "ReadAuthorizationModels"}} {
		fn := e.Func("pkg/server/commands", s.typ+".Execute")
		var backend ssa.CallInstruction
		find := func(method string) *site {
			var out *site
			scan := func(h *ssa.Function, via ssa.CallInstruction) {
				eachInstr(h, false, func(in ssa.Instruction) {
					c, ok := in.(ssa.CallInstruction)
					if ok && c.Common().IsInvoke() && c.Common().Method.Name() == method && out == nil {
						out = &site{h, c, via}
					}
				})
			}
			scan(fn, nil)
			if out != nil {
				return out
			}
			eachInstr(fn, false, func(in ssa.Instruction) {
				c, ok := in.(ssa.CallInstruction)
				if !ok {
					return
				}
				if g := staticCallee(c); g != nil && pkgOf(g) == pkgOf(fn) && len(g.Blocks) > 0 && out == nil {
					scan(g, c)
				}
			})
			return out
		}
		eachInstr(fn, false, func(in ssa.Instruction) {
			if c, ok := in.(ssa.CallInstruction); ok && c.Common().IsInvoke() && c.Common().Method.Name() == s.backendMethod {
				backend = c
			}
		})
		decode := find("Decode")
		name := fname(fn)
		if backend == nil || decode == nil {
			blind("token rule: %s: backend call or Decode not found", name)
		}
		// behind(site, cutInH): the backend is reached only when, after site.call, a cut edge was passed
		behind := func(st *site, cutInH func(Fact) bool) bool {
			if st.via == nil {
				ok, _ := mustPassFrom(fn, st.call, backend, cutSpec{edge: cutInH})
				return ok
			}
			// helper succeeds only across the cut, and Execute reaches the backend only behind the helper's success
			leak, _ := reachable(st.h, st.call, okRet, cutSpec{edge: cutInH})
			ok, _ := mustPassFrom(fn, st.via, backend, cutSpec{edge: errOf(st.via)})
			return !leak && ok
		}
		// (1) backend only after Decode err == nil
		r.Check(behind(decode, errOf(decode.call)), name+" | backend behind successful Decode", e.instrPos(backend), "Decode error returns before the backend is queried", "the backend can be queried although decoding the continuation token failed (a malformed token is then misread as some position)")
		// (2) the position given to the backend derives from the decoded token
		flows := false
		for _, a := range backend.Common().Args {
			d := describe_(a)
			if strings.Contains(d, "Decode(") {
				flows = true
			}
			if decode.via != nil && strings.Contains(d, "."+decode.h.Name()+"(") {
				for _, rs := range returnSites(decode.h) {
					for _, res := range rs.Results {
						if strings.Contains(describe_(res), "Decode(") {
							flows = true
						}
					}
				}
			}
		}
		r.Check(flows, name+" | position comes from the decoded token", e.instrPos(backend), "backend options derive from Decode(req.GetContinuationToken())", "the position passed to the backend does not derive from the decoded request token")
		if s.typ == "ReadChangesQuery" {
			deser := find("Deserialize")
			if deser == nil {
				r.Bad(name+" | token bound to type", e.pos(fn.Pos()), "the ReadChanges token is no longer deserialised into (ulid, type)")
				continue
			}
			typeEq := func(f Fact) bool {
				if f.Kind != "eq" || !f.Positive || f.Y == nil {
					return false
				}
				isObjType := func(v ssa.Value) bool {
					return derivesFrom(v, func(x ssa.Value) bool {
						ex, ok := x.(*ssa.Extract)
						return ok && ex.Index == 1 && ex.Tuple == deser.call.(ssa.Value)
					})
				}
				isReqType := func(v ssa.Value) bool { return strings.HasSuffix(describe_(v), ".GetType()") }
				return isObjType(f.X) && isReqType(f.Y) || isObjType(f.Y) && isReqType(f.X)
			}
			r.Check(behind(deser, typeEq), name+" | token bound to type", e.instrPos(deser.call), "after Deserialize the backend is reached only when tokenType == req.GetType()", "a continuation token can reach the backend although its type differs from the requested type filter: the walk resumes at a position of another filter and silently skips changes")
			r.Check(behind(deser, errOf(deser.call)), name+" | Deserialize error rejects", e.instrPos(deser.call), "Deserialize error returns", "a token that fails to deserialise still reaches the backend")
		}
	}
}

// mustPassFrom: every path from `from` to `to` passes a cut.
func mustPassFrom(fn *ssa.Function, from ssa.Instruction, to ssa.Instruction, cut cutSpec) (bool, []int) {
	reach, w := reachable(fn, from, func(in ssa.Instruction) bool { return in == to }, cut)
	return !reach, w
}

package main

import (
	"crypto/sha256"
	"encoding/hex"
	"encoding/json"
	"fmt"
	"os"
	"path/filepath"
	"sort"
	"strings"
)

func sortStrings(s []string) { sort.Strings(s) }

// Obligation is one decided instance of a rule. It is keyed by rule+construct, never by line.
type Obligation struct {
	Rule      string `json:"rule"`
	Construct string `json:"construct"`
	Pos       string `json:"pos,omitempty"`
	Status    string `json:"status"` // ok | violated
	Detail    string `json:"detail,omitempty"`
}

func (o Obligation) Key() string { return o.Rule + " | " + o.Construct }

// RuleInfo documents a rule and its non-vacuity floor.
type RuleInfo struct {
	Rule  string `json:"rule"`
	Text  string `json:"text"`
	Floor int    `json:"floor"`
	Count int    `json:"count"`
}

type PropResult struct {
	Property    string       `json:"property"`
	Obligations []Obligation `json:"obligations"`
	Rules       []RuleInfo   `json:"rules"`
	Blind       []string     `json:"blind,omitempty"`
	Analysed    []string     `json:"analysed,omitempty"`
}

type Results struct {
	Digest   string                 `json:"digest"`
	Packages int                    `json:"packages"`
	Funcs    int                    `json:"functions"`
	LoadS    float64                `json:"load_s"`
	Props    map[string]*PropResult `json:"props"`
}

// Reporter collects obligations for one property.
type Reporter struct {
	e    *Engine
	res  *PropResult
	rule string
}

func (r *Reporter) Rule(id, text string, floor int) {
	r.rule = id
	r.res.Rules = append(r.res.Rules, RuleInfo{Rule: id, Text: text, Floor: floor})
}

func (r *Reporter) add(status, construct, pos, detail string) {
	r.res.Obligations = append(r.res.Obligations, Obligation{Rule: r.rule, Construct: construct, Pos: pos, Status: status, Detail: detail})
}

func (r *Reporter) OK(construct, pos, detail string)   { r.add("ok", construct, pos, detail) }
func (r *Reporter) Bad(construct, pos, detail string)  { r.add("violated", construct, pos, detail) }
func (r *Reporter) Check(ok bool, construct, pos, okDetail, badDetail string) {
	if ok {
		r.OK(construct, pos, okDetail)
	} else {
		r.Bad(construct, pos, badDetail)
	}
}
func (r *Reporter) Analysed(s string) { r.res.Analysed = append(r.res.Analysed, s) }

type ruleFunc func(e *Engine, r *Reporter)

type propDef struct {
	id    string
	title string
	run   ruleFunc
}

var registry []propDef

func register(id, title string, f ruleFunc) { registry = append(registry, propDef{id, title, f}) }

func runAll(e *Engine, only string) map[string]*PropResult {
	out := map[string]*PropResult{}
	for _, p := range registry {
		if only != "" && p.id != only {
			continue
		}
		res := out[p.id]
		if res == nil {
			res = &PropResult{Property: p.id}
			out[p.id] = res
		}
		func() {
			defer func() {
				if x := recover(); x != nil {
					if b, ok := x.(blindError); ok {
						res.Blind = append(res.Blind, b.msg)
						return
					}
					res.Blind = append(res.Blind, fmt.Sprintf("panic in analysis: %v", x))
					if os.Getenv("FGALINT_DEBUG") != "" {
						panic(x)
					}
				}
			}()
			p.run(e, &Reporter{e: e, res: res})
		}()
		// floors
		counts := map[string]int{}
		for _, o := range res.Obligations {
			counts[o.Rule]++
		}
		for i := range res.Rules {
			res.Rules[i].Count = counts[res.Rules[i].Rule]
			if res.Rules[i].Count < res.Rules[i].Floor {
				res.Blind = append(res.Blind, fmt.Sprintf("rule %s matched %d instances, floor is %d (rule went blind)", res.Rules[i].Rule, res.Rules[i].Count, res.Rules[i].Floor))
			}
		}
		// duplicate keys are merged pessimistically
		seen := map[string]int{}
		var merged []Obligation
		for _, o := range res.Obligations {
			if i, ok := seen[o.Key()]; ok {
				if o.Status == "violated" && merged[i].Status != "violated" {
					merged[i] = o
				}
				continue
			}
			seen[o.Key()] = len(merged)
			merged = append(merged, o)
		}
		res.Obligations = merged
	}
	return out
}

// ---- known findings ---------------------------------------------------------------------------

type Finding struct {
	Property   string `json:"property"`
	Obligation string `json:"obligation"`
	What       string `json:"what"`
	Status     string `json:"status"` // open | fixed
	Commit     string `json:"commit,omitempty"`
}

type findingsFile struct {
	Findings []Finding `json:"findings"`
}

func loadFindings(verif string) []Finding {
	b, err := os.ReadFile(filepath.Join(verif, "known_findings.json"))
	if err != nil {
		return nil
	}
	var f findingsFile
	if err := json.Unmarshal(b, &f); err != nil {
		fmt.Fprintln(os.Stderr, "known_findings.json: ", err)
		os.Exit(2)
	}
	return f.Findings
}

// ---- digest -----------------------------------------------------------------------------------

func repoDigest(repo string) string {
	h := sha256.New()
	var files []string
	filepath.WalkDir(repo, func(p string, d os.DirEntry, err error) error {
		if err != nil {
			return nil
		}
		if d.IsDir() {
			if d.Name() == ".git" || d.Name() == "node_modules" {
				return filepath.SkipDir
			}
			return nil
		}
		n := d.Name()
		if strings.HasSuffix(n, ".go") || n == "go.mod" || n == "go.sum" {
			files = append(files, p)
		}
		return nil
	})
	sort.Strings(files)
	for _, f := range files {
		b, err := os.ReadFile(f)
		if err != nil {
			continue
		}
		fmt.Fprintf(h, "%s\x00%d\x00", f, len(b))
		h.Write(b)
	}
	if exe, err := os.Executable(); err == nil {
		if b, err := os.ReadFile(exe); err == nil {
			s := sha256.Sum256(b)
			h.Write(s[:])
		}
	}
	return hex.EncodeToString(h.Sum(nil))[:32]
}

func obligationFile(s string) string {
	h := sha256.Sum256([]byte(s))
	return hex.EncodeToString(h[:])[:16]
}

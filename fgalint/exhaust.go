package main

// A3 exhaustiveness: type switches over sealed (protobuf oneof) interfaces and value switches
// over enum-like named types.

import (
	"fmt"
	"go/ast"
	"go/constant"
	"go/token"
	"go/types"
	"sort"
	"strings"

	"golang.org/x/tools/go/packages"
)

type switchSite struct {
	Pkg      *packages.Package
	Func     string // declared function enclosing the switch
	Ordinal  int    // n-th switch over this subject type inside Func
	Pos      token.Pos
	Subject  string   // type name switched over
	Covered  []string // case labels
	Missing  []string
	HasDef   bool
	DefFails bool // default clause fails closed (returns non-nil error / panics)
	DefEmpty bool
}

func (s switchSite) key() string {
	k := fmt.Sprintf("%s.%s switch(%s)", short(s.Pkg.PkgPath), pinnedQualified(short(s.Pkg.PkgPath), s.Func), s.Subject)
	if s.Ordinal > 0 {
		k += fmt.Sprintf("#%d", s.Ordinal+1)
	}
	return k
}

// sealedImpls returns the names of the named types in iface's package implementing it.
func sealedImpls(iface *types.Named) []string {
	it, ok := iface.Underlying().(*types.Interface)
	if !ok {
		return nil
	}
	var out []string
	sc := iface.Obj().Pkg().Scope()
	for _, n := range sc.Names() {
		tn, ok := sc.Lookup(n).(*types.TypeName)
		if !ok || tn.IsAlias() {
			continue
		}
		if _, isIface := tn.Type().Underlying().(*types.Interface); isIface {
			continue
		}
		if types.Implements(types.NewPointer(tn.Type()), it) || types.Implements(tn.Type(), it) {
			out = append(out, n)
		}
	}
	sort.Strings(out)
	return out
}

func isSealed(n *types.Named) bool {
	it, ok := n.Underlying().(*types.Interface)
	if !ok {
		return false
	}
	for i := 0; i < it.NumMethods(); i++ {
		if !it.Method(i).Exported() {
			return true
		}
	}
	return false
}

func typeBaseName(t types.Type) string {
	if p, ok := t.(*types.Pointer); ok {
		t = p.Elem()
	}
	if n, ok := t.(*types.Named); ok {
		return n.Obj().Name()
	}
	return t.String()
}

// failsClosed: the statement list ends by returning a non-nil error (last result not the nil
// literal), or panics, or returns constant false as a bool-only result.
func failsClosed(info *types.Info, body []ast.Stmt) bool {
	if len(body) == 0 {
		return false
	}
	last := body[len(body)-1]
	switch s := last.(type) {
	case *ast.ReturnStmt:
		if len(s.Results) == 0 {
			return false
		}
		lr := s.Results[len(s.Results)-1]
		tv := info.Types[lr]
		if tv.IsNil() {
			return false
		}
		if tv.Type != nil {
			if isErrorType(tv.Type) {
				return true
			}
			if b, ok := tv.Type.Underlying().(*types.Basic); ok && b.Info()&types.IsBoolean != 0 && tv.Value != nil {
				return !constant.BoolVal(tv.Value)
			}
		}
		return false
	case *ast.AssignStmt:
		// `res, err = nil, ErrX`: the clause's outcome is a non-nil error in the function's error variable
		if len(s.Lhs) != len(s.Rhs) {
			return false
		}
		for i, l := range s.Lhs {
			if lt := info.TypeOf(l); lt != nil && types.Identical(lt, types.Universe.Lookup("error").Type()) {
				return !info.Types[s.Rhs[i]].IsNil()
			}
		}
		return false
	case *ast.ExprStmt:
		if c, ok := s.X.(*ast.CallExpr); ok {
			if id, ok := c.Fun.(*ast.Ident); ok && id.Name == "panic" {
				return true
			}
		}
	}
	return false
}

func isErrorType(t types.Type) bool {
	if t == nil {
		return false
	}
	errT := types.Universe.Lookup("error").Type()
	if types.Identical(t, errT) {
		return true
	}
	it := errT.Underlying().(*types.Interface)
	return types.Implements(t, it) || types.Implements(types.NewPointer(t), it)
}

// typeSwitches enumerates type switches over sealed interfaces.
func (e *Engine) typeSwitches() []switchSite {
	var out []switchSite
	for _, p := range e.modulePackages(false) {
		for _, f := range p.Syntax {
			counts := map[string]int{}
			ast.Inspect(f, func(n ast.Node) bool {
				ts, ok := n.(*ast.TypeSwitchStmt)
				if !ok {
					return true
				}
				var x ast.Expr
				switch a := ts.Assign.(type) {
				case *ast.AssignStmt:
					x = a.Rhs[0].(*ast.TypeAssertExpr).X
				case *ast.ExprStmt:
					x = a.X.(*ast.TypeAssertExpr).X
				}
				t := p.TypesInfo.TypeOf(x)
				named, ok := t.(*types.Named)
				if !ok || !isSealed(named) {
					return true
				}
				impls := sealedImpls(named)
				site := switchSite{Pkg: p, Pos: ts.Pos(), Subject: named.Obj().Name()}
				site.Func = funcDeclName(e.enclosingFuncDecl(p, ts.Pos()))
				ck := site.Func + "|" + site.Subject
				site.Ordinal = counts[ck]
				counts[ck]++
				cov := map[string]bool{}
				for _, c := range ts.Body.List {
					cc := c.(*ast.CaseClause)
					if cc.List == nil {
						site.HasDef = true
						site.DefFails = failsClosed(p.TypesInfo, cc.Body)
						site.DefEmpty = len(cc.Body) == 0
						continue
					}
					for _, ex := range cc.List {
						tv := p.TypesInfo.Types[ex]
						if tv.IsNil() {
							cov["nil"] = true
							continue
						}
						cov[typeBaseName(tv.Type)] = true
					}
				}
				for k := range cov {
					site.Covered = append(site.Covered, k)
				}
				sort.Strings(site.Covered)
				for _, im := range impls {
					if !cov[im] {
						site.Missing = append(site.Missing, im)
					}
				}
				out = append(out, site)
				return true
			})
		}
	}
	return out
}

// enumConsts returns the declared constants of a named basic type (in its own package).
func enumConsts(n *types.Named) []*types.Const {
	var out []*types.Const
	if n.Obj().Pkg() == nil {
		return nil
	}
	sc := n.Obj().Pkg().Scope()
	for _, name := range sc.Names() {
		if c, ok := sc.Lookup(name).(*types.Const); ok && types.Identical(c.Type(), n) {
			out = append(out, c)
		}
	}
	return out
}

// valueSwitches enumerates `switch x { case C1: ... }` where x has a named basic type with
// at least two declared constants.
func (e *Engine) valueSwitches() []switchSite {
	var out []switchSite
	for _, p := range e.modulePackages(false) {
		for _, f := range p.Syntax {
			counts := map[string]int{}
			ast.Inspect(f, func(n ast.Node) bool {
				ss, ok := n.(*ast.SwitchStmt)
				if !ok || ss.Tag == nil {
					return true
				}
				t := p.TypesInfo.TypeOf(ss.Tag)
				named, ok := t.(*types.Named)
				if !ok {
					return true
				}
				if _, ok := named.Underlying().(*types.Basic); !ok {
					return true
				}
				consts := enumConsts(named)
				if len(consts) < 2 {
					return true
				}
				site := switchSite{Pkg: p, Pos: ss.Pos(), Subject: named.Obj().Name()}
				site.Func = funcDeclName(e.enclosingFuncDecl(p, ss.Pos()))
				ck := site.Func + "|" + site.Subject
				site.Ordinal = counts[ck]
				counts[ck]++
				covVals := map[string]bool{}
				for _, c := range ss.Body.List {
					cc := c.(*ast.CaseClause)
					if cc.List == nil {
						site.HasDef = true
						site.DefFails = failsClosed(p.TypesInfo, cc.Body)
						site.DefEmpty = len(cc.Body) == 0
						continue
					}
					for _, ex := range cc.List {
						tv := p.TypesInfo.Types[ex]
						if tv.Value != nil {
							covVals[tv.Value.ExactString()] = true
						}
					}
				}
				seenVal := map[string]bool{}
				for _, c := range consts {
					v := c.Val().ExactString()
					if seenVal[v] {
						continue
					}
					seenVal[v] = true
					if covVals[v] {
						site.Covered = append(site.Covered, c.Name())
					} else {
						site.Missing = append(site.Missing, c.Name())
					}
				}
				sort.Strings(site.Covered)
				sort.Strings(site.Missing)
				out = append(out, site)
				return true
			})
		}
	}
	return out
}

// switchAllowance freezes intentional subsets: key -> allowed missing set + reason.
type switchAllowance struct {
	missing []string
	reason  string
}

// judgeSwitch decides one site against the frozen table.
// Rule: a site listed in `table` must miss exactly a subset of what was reviewed; a site not
// listed must be total or have a fail-closed default.
func judgeSwitch(s switchSite, table map[string]switchAllowance) (bool, string) {
	if a, ok := table[s.key()]; ok {
		allowed := map[string]bool{}
		for _, m := range a.missing {
			allowed[m] = true
		}
		var extra []string
		for _, m := range s.Missing {
			if !allowed[m] {
				extra = append(extra, m)
			}
		}
		if len(extra) > 0 {
			return false, fmt.Sprintf("cases %v are no longer handled (reviewed subset allowed only %v: %s)", extra, a.missing, a.reason)
		}
		return true, fmt.Sprintf("covers %v; reviewed subset, missing %v: %s", s.Covered, s.Missing, a.reason)
	}
	if len(s.Missing) == 0 {
		return true, fmt.Sprintf("total: covers %v", s.Covered)
	}
	if s.HasDef && s.DefFails {
		return true, fmt.Sprintf("covers %v; %v go to a default that fails closed", s.Covered, s.Missing)
	}
	return false, fmt.Sprintf("cases %v are not handled and there is no fail-closed default (covered: %s)", s.Missing, strings.Join(s.Covered, ","))
}

package main

import (
	"encoding/json"
	"flag"
	"fmt"
	"os"
	"path/filepath"
	"sort"
	"strconv"
	"strings"
	"syscall"
	"time"
)

var (
	repoDir  = envOr("FGA_REPO", "/repo")
	verifDir = envOr("VERIF_DIR", "/verif")
)

func envOr(k, d string) string {
	if v := os.Getenv(k); v != "" {
		return v
	}
	return d
}

// propMeta: what each property's check decides (goes into evidence.explanation) and what it trusts.
type meta struct {
	Decides     string
	NotDecided  string
	Assumptions []string
}

var propMeta = map[string]meta{}

func describe(id string, m meta) { propMeta[id] = m }

func main() {
	if len(os.Args) < 2 {
		fmt.Fprintln(os.Stderr, "usage: fgalint check|all|explain|mutants ...")
		os.Exit(2)
	}
	switch os.Args[1] {
	case "check":
		os.Exit(cmdCheck(os.Args[2:]))
	case "all":
		os.Exit(cmdAll(os.Args[2:]))
	case "explain":
		os.Exit(cmdExplain(os.Args[2:]))
	case "mutants":
		os.Exit(cmdMutants(os.Args[2:]))
	case "analyse":
		os.Exit(cmdAnalyse(os.Args[2:]))
	case "manifest":
		os.Exit(cmdManifest())
	case "inventory":
		os.Exit(cmdInventory())
	case "anchors":
		os.Exit(cmdAnchors())
	default:
		fmt.Fprintln(os.Stderr, "unknown command", os.Args[1])
		os.Exit(2)
	}
}

// analyse loads the tree once and evaluates every registered property.
func analyse(extraEnv []string, overlay map[string][]byte, only string) (*Results, error) {
	t0 := time.Now()
	e, err := Load(repoDir, extraEnv, overlay)
	if err != nil {
		return nil, err
	}
	res := &Results{Packages: len(e.Pkgs), Funcs: len(e.Fns), LoadS: time.Since(t0).Seconds()}
	res.Props = runAll(e, only)
	return res, nil
}

// cachedResults returns the analysis for the current working tree, computing it at most once
// per source digest (flock-protected so parallel checks share one pass).
func cachedResults() (*Results, bool, error) {
	digest := repoDigest(repoDir)
	cacheDir := filepath.Join(verifDir, ".cache")
	os.MkdirAll(cacheDir, 0o755)
	path := filepath.Join(cacheDir, "results-"+digest+".json")
	read := func() *Results {
		b, err := os.ReadFile(path)
		if err != nil {
			return nil
		}
		var r Results
		if json.Unmarshal(b, &r) != nil || r.Digest != digest {
			return nil
		}
		return &r
	}
	noCache := os.Getenv("VERIF_NOCACHE") != ""
	if !noCache {
		if r := read(); r != nil {
			return r, true, nil
		}
	}
	lock, err := os.OpenFile(filepath.Join(cacheDir, "lock"), os.O_CREATE|os.O_RDWR, 0o644)
	if err == nil {
		defer lock.Close()
		syscall.Flock(int(lock.Fd()), syscall.LOCK_EX)
		defer syscall.Flock(int(lock.Fd()), syscall.LOCK_UN)
		if !noCache {
			if r := read(); r != nil {
				return r, true, nil
			}
		}
	}
	r, err := analyse(nil, nil, "")
	if err != nil {
		return nil, false, err
	}
	r.Digest = digest
	// the digest must still describe the tree we analysed
	if d2 := repoDigest(repoDir); d2 != digest {
		return nil, false, fmt.Errorf("source tree changed during analysis")
	}
	b, _ := json.Marshal(r)
	tmp := path + fmt.Sprintf(".tmp%d", os.Getpid())
	if os.WriteFile(tmp, b, 0o644) == nil {
		os.Rename(tmp, path)
	}
	// keep the cache small
	if ents, err := os.ReadDir(cacheDir); err == nil {
		type fi struct {
			name string
			t    time.Time
		}
		var fs []fi
		for _, en := range ents {
			if strings.HasPrefix(en.Name(), "results-") {
				if info, err := en.Info(); err == nil {
					fs = append(fs, fi{en.Name(), info.ModTime()})
				}
			}
		}
		sort.Slice(fs, func(i, j int) bool { return fs[i].t.After(fs[j].t) })
		for i := 8; i < len(fs); i++ {
			os.Remove(filepath.Join(cacheDir, fs[i].name))
		}
	}
	return r, false, nil
}

type evidence struct {
	PropertyID  string         `json:"property_id"`
	Tier        string         `json:"tier"`
	Seed        int            `json:"seed"`
	Level       string         `json:"level"`
	Coverage    map[string]any `json:"coverage"`
	Assumptions []string       `json:"assumptions"`
	WallS       float64        `json:"wall_s"`
	Violations  int            `json:"violations"`
}

func cmdCheck(args []string) int {
	fs := flag.NewFlagSet("check", flag.ExitOnError)
	prop := fs.String("p", "", "property id")
	tier := fs.String("tier", envOr("VERIF_TIER", "quick"), "quick|thorough")
	fs.Parse(args)
	if *prop == "" {
		fmt.Fprintln(os.Stderr, "check: -p required")
		return 2
	}
	if *tier != "quick" && *tier != "thorough" {
		*tier = "quick"
	}
	t0 := time.Now()
	seed, _ := strconv.Atoi(os.Getenv("VERIF_SEED"))
	evPath := filepath.Join(verifDir, "evidence", *prop+".json")
	os.MkdirAll(filepath.Dir(evPath), 0o755)
	os.Remove(evPath)

	res, cached, err := cachedResults()
	if err != nil {
		fmt.Fprintf(os.Stderr, "fgalint: no verdict: %v\n", err)
		return 2
	}
	pr := res.Props[*prop]
	if pr == nil {
		fmt.Fprintf(os.Stderr, "fgalint: property %s has no registered check\n", *prop)
		return 2
	}
	fmt.Printf("fgalint %s tier=%s digest=%s cached=%v packages=%d functions=%d\n", *prop, *tier, res.Digest, cached, res.Packages, res.Funcs)

	known := map[string]Finding{}
	for _, f := range loadFindings(verifDir) {
		if f.Property == *prop && f.Status == "open" {
			known[f.Obligation] = f
		}
	}
	var viol []Obligation
	discharged := 0
	distinct := map[string]bool{}
	knownHit := 0
	for _, o := range pr.Obligations {
		distinct[o.Key()] = true
		switch o.Status {
		case "ok":
			discharged++
		case "violated":
			if f, ok := known[o.Key()]; ok {
				fmt.Printf("KNOWN-FINDING: property=%s %s — %s\n", *prop, o.Key(), f.What)
				knownHit++
				continue
			}
			viol = append(viol, o)
		}
	}
	for _, ri := range pr.Rules {
		fmt.Printf("  rule %-34s instances=%-4d floor=%-3d %s\n", ri.Rule, ri.Count, ri.Floor, ri.Text)
	}
	exit := 0
	mutInfo := map[string]any{}
	if len(pr.Blind) > 0 {
		for _, b := range pr.Blind {
			fmt.Fprintf(os.Stderr, "fgalint: NO VERDICT for %s: %s\n", *prop, b)
		}
		exit = 2
	}
	replayDir := filepath.Join(verifDir, "replay", *prop)
	os.RemoveAll(replayDir)
	for _, o := range viol {
		os.MkdirAll(replayDir, 0o755)
		rp := filepath.Join(replayDir, obligationFile(o.Key())+".json")
		b, _ := json.MarshalIndent(map[string]any{
			"property": *prop, "obligation": o.Key(), "rule": o.Rule, "construct": o.Construct, "pos": o.Pos, "detail": o.Detail,
			"explain_cmd": fmt.Sprintf("/verif/bin/fgalint explain -p %s -o %q", *prop, o.Key()),
		}, "", " ")
		os.WriteFile(rp, b, 0o644)
		fmt.Printf("%s: %s: %s\n    %s\n", o.Pos, o.Rule, o.Construct, o.Detail)
		fmt.Printf("VIOLATION property=%s replay=%s\n", *prop, rp)
		exit = 1
	}
	if exit == 0 && *tier == "thorough" {
		// two-way test of the checker on overlay mutants + alternative build configurations
		mi, code := thoroughExtras(*prop)
		mutInfo = mi
		if code != 0 {
			exit = code
		}
	}
	// evidence
	m := propMeta[*prop]
	samples := []any{}
	perRule := map[string]int{}
	for _, o := range pr.Obligations {
		if perRule[o.Rule] < 3 || o.Status != "ok" {
			samples = append(samples, o)
			perRule[o.Rule]++
		}
	}
	rules := []any{}
	for _, ri := range pr.Rules {
		rules = append(rules, ri)
	}
	cov := map[string]any{
		"explanation":         "Static analysis of /repo's working tree (go/packages + go/types + go/ssa, nothing executed). Decides: " + m.Decides + " Not decided: " + m.NotDecided,
		"obligations":         len(pr.Obligations),
		"discharged":          discharged,
		"known_findings":      knownHit,
		"evaluations":         len(pr.Obligations),
		"distinct_nontrivial": len(distinct),
		"rule":                "one obligation per (rule, construct) instance found in the resolved program; distinct = distinct rule+construct keys; every instance is non-trivial in that it is a concrete code site the rule had to decide",
		"rules":               rules,
		"samples":             samples,
		"analysed":            pr.Analysed,
		"packages_loaded":     res.Packages,
		"functions_in_ssa":    res.Funcs,
		"source_digest":       res.Digest,
		"checker_cmd":         fmt.Sprintf("/verif/check %s %s", *prop, *tier),
		"trusted_base":        []string{"go/types, go/ssa (x/tools v0.50.0)", "the Go compiler's semantics for the constructs summarised", "frozen idiom/exemption tables in /verif/fgalint (each with a reason)"},
		"exhaustive":          false,
	}
	for k, v := range mutInfo {
		cov[k] = v
	}
	if len(pr.Blind) > 0 {
		cov["no_verdict"] = pr.Blind
	}
	ev := evidence{PropertyID: *prop, Tier: *tier, Seed: seed, Level: "other", Coverage: cov,
		Assumptions: append([]string{"the loaded build configuration (linux/amd64, no tags) is the one deployed; thorough tier also loads windows and 386"}, m.Assumptions...),
		WallS:       time.Since(t0).Seconds(), Violations: len(viol)}
	b, _ := json.MarshalIndent(ev, "", " ")
	if err := os.WriteFile(evPath, b, 0o644); err != nil {
		fmt.Fprintln(os.Stderr, "fgalint: cannot write evidence:", err)
		return 2
	}
	fmt.Printf("fgalint %s: obligations=%d discharged=%d violations=%d known=%d wall=%.1fs exit=%d\n", *prop, len(pr.Obligations), discharged, len(viol), knownHit, time.Since(t0).Seconds(), exit)
	return exit
}

func cmdAll(args []string) int {
	fs := flag.NewFlagSet("all", flag.ExitOnError)
	only := fs.String("p", "", "only this property")
	verbose := fs.Bool("v", false, "print every obligation")
	fs.Parse(args)
	res, err := analyse(nil, nil, *only)
	if err != nil {
		fmt.Fprintln(os.Stderr, err)
		return 2
	}
	fmt.Printf("packages=%d functions=%d load=%.1fs\n", res.Packages, res.Funcs, res.LoadS)
	var ids []string
	for id := range res.Props {
		ids = append(ids, id)
	}
	sort.Strings(ids)
	code := 0
	for _, id := range ids {
		pr := res.Props[id]
		bad := 0
		for _, o := range pr.Obligations {
			if o.Status != "ok" {
				bad++
			}
		}
		fmt.Printf("== %s obligations=%d violated=%d blind=%d\n", id, len(pr.Obligations), bad, len(pr.Blind))
		for _, ri := range pr.Rules {
			fmt.Printf("   rule %-34s n=%-4d floor=%d\n", ri.Rule, ri.Count, ri.Floor)
		}
		for _, b := range pr.Blind {
			fmt.Printf("   BLIND: %s\n", b)
			code = 2
		}
		for _, o := range pr.Obligations {
			if o.Status != "ok" || *verbose {
				fmt.Printf("   [%s] %s: %s  (%s)\n        %s\n", o.Status, o.Rule, o.Construct, o.Pos, o.Detail)
			}
			if o.Status != "ok" && code == 0 {
				code = 1
			}
		}
	}
	return code
}

func cmdAnalyse(args []string) int {
	// internal: analyse with an overlay given as JSON {file: content} on stdin, print results JSON
	fs := flag.NewFlagSet("analyse", flag.ExitOnError)
	only := fs.String("p", "", "only this property")
	ovl := fs.String("overlay", "", "JSON file with {path: content}")
	goos := fs.String("goos", "", "GOOS")
	goarch := fs.String("goarch", "", "GOARCH")
	fs.Parse(args)
	var overlay map[string][]byte
	if *ovl != "" {
		b, err := os.ReadFile(*ovl)
		if err != nil {
			fmt.Fprintln(os.Stderr, err)
			return 2
		}
		m := map[string]string{}
		if err := json.Unmarshal(b, &m); err != nil {
			fmt.Fprintln(os.Stderr, err)
			return 2
		}
		overlay = map[string][]byte{}
		for k, v := range m {
			overlay[k] = []byte(v)
		}
	}
	var env []string
	if *goos != "" {
		env = append(env, "GOOS="+*goos, "CGO_ENABLED=0")
	}
	if *goarch != "" {
		env = append(env, "GOARCH="+*goarch, "CGO_ENABLED=0")
	}
	res, err := analyse(env, overlay, *only)
	if err != nil {
		fmt.Fprintln(os.Stderr, err)
		return 2
	}
	b, _ := json.Marshal(res)
	os.Stdout.Write(b)
	return 0
}

func cmdExplain(args []string) int {
	fs := flag.NewFlagSet("explain", flag.ExitOnError)
	prop := fs.String("p", "", "property id")
	obl := fs.String("o", "", "obligation key")
	fs.Parse(args)
	res, err := analyse(nil, nil, *prop)
	if err != nil {
		fmt.Fprintln(os.Stderr, err)
		return 2
	}
	pr := res.Props[*prop]
	if pr == nil {
		return 2
	}
	code := 0
	for _, o := range pr.Obligations {
		if *obl == "" || o.Key() == *obl {
			fmt.Printf("[%s] %s\n  at %s\n  %s\n", o.Status, o.Key(), o.Pos, o.Detail)
			if o.Status != "ok" {
				code = 1
			}
		}
	}
	return code
}

package main

import (
	"go/token"

	"golang.org/x/tools/go/ssa"
)

// retSite is one source-level return statement with its result values, recovered also when
// go/ssa spills results to locals because the function has deferred calls.
type retSite struct {
	At      ssa.Instruction // instruction standing for the return (first spill store, or the Return)
	Ret     *ssa.Return
	Results []ssa.Value
}

func returnSites(fn *ssa.Function) []retSite {
	var out []retSite
	for _, b := range fn.Blocks {
		if len(b.Instrs) == 0 {
			continue
		}
		ret, ok := b.Instrs[len(b.Instrs)-1].(*ssa.Return)
		if !ok {
			continue
		}
		if fn.Recover != nil && b == fn.Recover {
			continue
		}
		spilled := len(ret.Results) > 0
		allocs := make([]*ssa.Alloc, len(ret.Results))
		for i, r := range ret.Results {
			u, ok := r.(*ssa.UnOp)
			if !ok || u.Op != token.MUL || u.Block() != b {
				spilled = false
				break
			}
			a, ok := u.X.(*ssa.Alloc)
			if !ok {
				spilled = false
				break
			}
			allocs[i] = a
		}
		if !spilled {
			out = append(out, retSite{At: ret, Ret: ret, Results: ret.Results})
			continue
		}
		// find RunDefers in the block, then the last store to each result alloc before it
		rd := -1
		for i, in := range b.Instrs {
			if _, ok := in.(*ssa.RunDefers); ok {
				rd = i
			}
		}
		if rd < 0 {
			out = append(out, retSite{At: ret, Ret: ret, Results: ret.Results})
			continue
		}
		res := make([]ssa.Value, len(allocs))
		var first ssa.Instruction
		complete := true
		for i, a := range allocs {
			for j := rd - 1; j >= 0; j-- {
				if st, ok := b.Instrs[j].(*ssa.Store); ok && st.Addr == a {
					res[i] = st.Val
					if first == nil || j < indexOf(b, first) {
						first = st
					}
					break
				}
			}
			if res[i] == nil {
				complete = false
			}
		}
		if !complete {
			// named results assigned elsewhere: keep the loads
			out = append(out, retSite{At: ret, Ret: ret, Results: ret.Results})
			continue
		}
		out = append(out, retSite{At: first, Ret: ret, Results: res})
	}
	return out
}

func indexOf(b *ssa.BasicBlock, in ssa.Instruction) int {
	for i, x := range b.Instrs {
		if x == in {
			return i
		}
	}
	return -1
}

// errResult returns the last result if it has error type.
func (r retSite) errResult() ssa.Value {
	if len(r.Results) == 0 {
		return nil
	}
	v := r.Results[len(r.Results)-1]
	if isErrorType(v.Type()) {
		return v
	}
	return nil
}

// isSuccess: the site returns a nil error constant.
func (r retSite) isSuccess() bool {
	v := r.errResult()
	return v != nil && isNilConst(v)
}

// maySucceed: the return statement can report success: its error result is the nil constant, or it forwards
// the results of a call to a module function with a body that itself has a succeeding return (tail call of a
// helper the success path was extracted into).
func (r retSite) maySucceed() bool {
	if r.isSuccess() {
		return true
	}
	v := r.errResult()
	if v == nil {
		return false
	}
	ex, ok := unwrap(v).(*ssa.Extract)
	if !ok {
		return false
	}
	c, ok := ex.Tuple.(*ssa.Call)
	if !ok {
		return false
	}
	g := c.Call.StaticCallee()
	if g == nil || len(g.Blocks) == 0 {
		return false
	}
	for _, rs := range returnSites(g) {
		if rs.isSuccess() {
			return true
		}
	}
	return false
}

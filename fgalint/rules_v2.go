package main

// C03: weighted-graph Check — fail-closed dispatch, fallback wiring, detector agreement.
// C02: fast strategies are only offered under the predicate that makes them valid.

import (
	"fmt"
	"go/types"
	"strings"

	"golang.org/x/tools/go/ssa"
)

var v2SwitchAllowances = map[string]switchAllowance{}

func ruleV2Dispatch(e *Engine, r *Reporter) {
	r.Rule("v2-dispatch-fail-closed", "every switch of the weighted-graph engine over edge kinds, node kinds or strategy kinds covers all of them or ends in a default that fails (ErrPanicRequest / error), so an unknown shape is never answered", 4)
	for _, s := range e.valueSwitches() {
		if short(s.Pkg.PkgPath) != "internal/check" {
			continue
		}
		ok, d := judgeSwitch(s, v2SwitchAllowances)
		r.Check(ok, s.key(), e.pos(s.Pos), d, d)
	}
}

func ruleV2Fallback(e *Engine, r *Reporter) {
	r.Rule("v2-fallback-wiring", "in Server.Check a non-terminal error of v2Check never produces a response: every return reachable from that outcome passes through the default engine's CheckCommand.Execute; both reporting sites consult the breaking-change detector", 3)
	fn := e.Func("pkg/server", "Server.Check")
	var v2 *ssa.Call
	var v1exec ssa.Instruction
	eachInstr(fn, false, func(in ssa.Instruction) {
		c, ok := in.(*ssa.Call)
		if !ok {
			return
		}
		if g := staticCallee(c); g != nil {
			if g.Name() == "v2Check" {
				v2 = c
			}
			if g.Name() == "Execute" && strings.Contains(fname(g), "CheckQuery") {
				v1exec = in
			}
		}
	})
	if v2 == nil || v1exec == nil {
		blind("v2-fallback: v2Check call or v1 Execute not found in Server.Check")
	}
	// cut: the outcomes that are allowed to answer directly (err == nil, or terminal error), and the v1 Execute
	cut := cutSpec{
		instr: func(in ssa.Instruction) bool { return in == v1exec },
		edge: func(f Fact) bool {
			if f.Kind == "nil" && f.Positive && isErrorType(f.X.Type()) && derivesFrom(f.X, func(v ssa.Value) bool { return v == ssa.Value(v2) }) {
				return true
			}
			return callFactNamed(f, "IsV2CheckTerminalError", true)
		},
	}
	leak := false
	var via ssa.Instruction
	for _, rs := range returnSites(fn) {
		// returns of errors before the v1 engine ran (resolver build failure etc.) are not answers
		if len(rs.Results) == 2 && isNilConst(rs.Results[0]) {
			continue
		}
		if reach, _ := reachable(fn, v2, func(in ssa.Instruction) bool { return in == rs.At }, cut); reach {
			leak, via = true, rs.At
		}
	}
	pos := e.instrPos(v2)
	if via != nil {
		pos = e.instrPos(via)
	}
	r.Check(!leak, fname(fn)+" | non-terminal v2 error falls back to the default engine", pos, "every answer after a non-terminal v2 error comes from CheckCommand.Execute", "a response can be returned after v2Check failed with a non-terminal error without the default engine having run")
	// detector consulted at both sites
	nReason, nFromErr := 0, 0
	for _, rf := range sameePackageRegion(fn, 2) { // the handler and the same-package helpers it calls
		eachInstr(rf, true, func(in ssa.Instruction) {
			if isCallNamed(in, "CheckReason") {
				nReason++
			}
			if isCallNamed(in, "CheckReasonFromV2Error") {
				nFromErr++
			}
		})
	}
	r.Check(nReason >= 2 && nFromErr >= 1, fname(fn)+" | breaking-change detector consulted", e.pos(fn.Pos()), fmt.Sprintf("CheckReason x%d, CheckReasonFromV2Error x%d", nReason, nFromErr), "the v2-success-denied-userset path or the fallback path no longer reports through the breaking-change detector")
	// every exported Err…InvalidRequest sentinel of internal/check is known to the detector
	det := e.Func("pkg/server/commands/v2breaking", "CheckReasonFromV2Error")
	dtext := ""
	eachInstr(det, false, func(in ssa.Instruction) {
		if c, ok := in.(*ssa.Call); ok {
			if g := c.Call.StaticCallee(); g != nil && g.Name() == "Is" {
				dtext += describe_(c.Call.Args[1]) + " "
			}
		}
	})
	sc := e.Pkg("internal/check").Types.Scope()
	for _, n := range sc.Names() {
		v, ok := sc.Lookup(n).(*types.Var)
		if !ok || !v.Exported() || !strings.HasPrefix(n, "Err") || !strings.HasSuffix(n, "InvalidRequest") {
			continue
		}
		r.Check(strings.Contains(dtext, "check."+n), "detector knows check."+n, e.pos(det.Pos()), "mapped to a reason", "the request-shape rejection check."+n+" is not recognised by CheckReasonFromV2Error: the divergence from the default engine goes unreported")
	}
	// IsV2CheckTerminalError: the sentinels treated as terminal are request-lifecycle errors only — none of internal/check's own
	term := e.Func("pkg/server/commands", "IsV2CheckTerminalError")
	var sentinels []string
	eachInstr(term, false, func(in ssa.Instruction) {
		if c, ok := in.(*ssa.Call); ok {
			if g := c.Call.StaticCallee(); g != nil && g.Name() == "Is" && len(c.Call.Args) == 2 {
				sentinels = append(sentinels, describe_(c.Call.Args[1]))
			}
		}
	})
	engineOwn := ""
	for _, sn := range sentinels {
		if strings.HasPrefix(sn, "check.") || strings.HasPrefix(sn, "graph.") {
			engineOwn = sn
		}
	}
	r.Check(engineOwn == "" && len(sentinels) > 0, fname(term)+" | terminal sentinels are lifecycle errors", e.pos(term.Pos()), fmt.Sprintf("terminal sentinels: %v", uniq(sentinels)), "an error of the weighted-graph engine itself ("+engineOwn+") is treated as terminal: requests it cannot answer are no longer retried on the default engine")
	// reviewed terminal status codes
	for _, s := range e.valueSwitches() {
		if s.Func == "IsV2CheckTerminalError" {
			want := map[string]bool{"ErrorCode_invalid_tuple": true, "ErrorCode_validation_error": true}
			ok := len(s.Covered) == len(want)
			for _, c := range s.Covered {
				if !want[c] {
					ok = false
				}
			}
			r.Check(ok, s.key(), e.pos(s.Pos), fmt.Sprintf("terminal codes: %v", s.Covered), fmt.Sprintf("the set of v2 errors treated as terminal changed to %v: a wider set suppresses the fallback to the default engine, a narrower one re-runs rejected requests", s.Covered))
		}
	}
}

// ---- C02 --------------------------------------------------------------------------------------

var strategyPredicates = map[string][]string{
	"weight2Userset":   {"UsersetUseWeight2Resolver"},
	"weight2TTU":       {"TTUUseWeight2Resolver"},
	"recursiveUserset": {"UsersetUseRecursiveResolver"},
	"recursiveTTU":     {"TTUUseRecursiveResolver"},
}

var strategyConst = map[string]string{
	"weight2Userset":   "weightTwoResolver",
	"weight2TTU":       "weightTwoResolver",
	"recursiveUserset": "recursiveResolver",
	"recursiveTTU":     "recursiveResolver",
}

func isPlanMap(t types.Type) bool {
	m, ok := t.Underlying().(*types.Map)
	return ok && typeBaseName(derefType(m.Elem())) == "PlanConfig"
}

func ruleStrategyGuards(e *Engine, r *Reporter) {
	r.Rule("fast-strategy-guarded", "in the default engine every reference to a fast-path handler (weight2Userset, weight2TTU, recursiveUserset, recursiveTTU) is control-dependent on the typesystem predicate that makes that strategy valid — directly, or by being selected by name from the offered-strategies map, into which that name is only ever inserted under the predicate", 6)
	scope := e.Pkg("internal/graph").Types.Scope()
	constVal := func(n string) string {
		c, ok := scope.Lookup(n).(*types.Const)
		if !ok {
			blind("fast-strategy-guarded: constant " + n + " not found")
		}
		return strings.Trim(c.Val().ExactString(), "\"")
	}
	predCut := func(preds []string) cutSpec {
		return cutSpec{edge: func(f Fact) bool {
			if f.Kind == "call" && f.Positive && f.Call != nil {
				if o := calleeObj(f.Call); o != nil {
					for _, p := range preds {
						if o.Name() == p {
							return true
						}
					}
				}
			}
			return false
		}}
	}
	n := 0
	for _, fn := range e.Fns {
		if short(pkgOf(fn)) != "internal/graph" {
			continue
		}
		top := topLevel(fn)
		for _, b := range fn.Blocks {
			for _, in := range b.Instrs {
				var names []string
				for _, op := range in.Operands(nil) {
					if op == nil || *op == nil {
						continue
					}
					if x, ok := (*op).(*ssa.Function); ok {
						names = append(names, strings.TrimSuffix(x.Name(), "$bound"))
					}
				}
				for _, nm := range uniq(names) {
					preds, isFast := strategyPredicates[nm]
					if !isFast || top.Name() == nm {
						continue
					}
					n++
					key := fmt.Sprintf("%s | reference to %s #%d", fname(top), nm, n)
					if e.guardedAnyLevel(in, predCut(preds)) {
						r.Check(true, key, e.instrPos(in), "directly behind "+strings.Join(preds, "/"), "")
						continue
					}
					// selected by name
					sname := constVal(strategyConst[nm])
					// table form: the handler is an entry of a name-keyed lookup table returned by this function; the
					// obligations move to where the table is consulted
					if okTable, detail := e.strategyTableEntryGuarded(in, fn, sname, preds, predCut(preds)); okTable != 0 {
						r.Check(okTable > 0, key, e.instrPos(in), detail, detail)
						continue
					}
					var cmpd []ssa.Value
					byName := e.guardedAnyLevel(in, cutSpec{edge: func(f Fact) bool {
						if f.Kind == "eq" && f.Positive {
							if s, ok := constString(f.Y); ok && s == sname {
								cmpd = append(cmpd, f.X)
								return true
							}
						}
						return false
					}})
					// the compared name is a member of the offered map: `_, ok := m[name]` guards, or it is Select(m).Name;
					// when the comparison sits in a helper taking the name as a parameter, this is required at every call site
					memberCut := cutSpec{edge: func(f Fact) bool {
						if f.Kind != "bool" || !f.Positive {
							return false
						}
						ex, ok := unwrap(f.X).(*ssa.Extract)
						if !ok || ex.Index != 1 {
							return false
						}
						lk, ok := ex.Tuple.(*ssa.Lookup)
						return ok && lk.CommaOk && isPlanMap(lk.X.Type())
					}}
					fromSelect := func(x ssa.Value) bool {
						if u, ok := unwrap(x).(*ssa.UnOp); ok { // strategy.Name: peel the field load
							if fa, ok := u.X.(*ssa.FieldAddr); ok {
								x = fa.X
							}
						}
						return derivesFrom(x, func(v ssa.Value) bool {
							c, ok := v.(*ssa.Call)
							if !ok {
								return false
							}
							o := calleeObj(c)
							if o == nil || o.Name() != "Select" {
								return false
							}
							for _, a := range c.Call.Args {
								if isPlanMap(a.Type()) {
									return true
								}
							}
							return false
						})
					}
					tops := map[*ssa.Function]bool{top: true}
					member := e.guardedAnyLevel(in, memberCut)
					for _, x := range cmpd {
						if member {
							break
						}
						if fromSelect(x) {
							member = true
							break
						}
						if prm, ok := unwrap(x).(*ssa.Parameter); ok {
							idx := -1
							for i, q := range prm.Parent().Params {
								if q == prm {
									idx = i
								}
							}
							sites := e.allCallSites(prm.Parent())
							all := len(sites) > 0 && idx >= 0
							for _, cs := range sites {
								args := cs.Common().Args
								if idx >= len(args) || !(e.guardedAnyLevel(cs, memberCut) || fromSelect(args[idx])) {
									all = false
								}
								tops[topLevel(cs.Parent())] = true
							}
							member = all
						}
					}
					// every insertion of that name into an offered map in the function(s) that select by name is under the predicate
					offers, offersOK := 0, true
					for _, g := range e.Fns {
						if !tops[topLevel(g)] {
							continue
						}
						eachInstr(g, false, func(i2 ssa.Instruction) {
							mu, ok := i2.(*ssa.MapUpdate)
							if !ok || !isPlanMap(mu.Map.Type()) {
								return
							}
							if s, ok := constString(mu.Key); !ok || s != sname {
								if !ok {
									offersOK = false // computed strategy name
								}
								return
							}
							offers++
							if !e.guardedAnyLevel(i2, predCut(preds)) {
								offersOK = false
							}
						})
					}
					ok := byName && member && offers > 0 && offersOK
					r.Check(ok, key, e.instrPos(in), fmt.Sprintf("selected by name %q from the offered map; %d insertion(s) of that name, all behind %s", sname, offers, strings.Join(preds, "/")),
						fmt.Sprintf("the fast-path handler %s can be selected on a path where %s was not established (by-name=%v, member-of-offered-map=%v, insertions=%d, insertions-guarded=%v): the strategy would run on a relation shape for which it does not compute the default strategy's answer", nm, strings.Join(preds, "/"), byName, member, offers, offersOK))
				}
			}
		}
	}
	if n == 0 {
		blind("fast-strategy-guarded: no reference to a fast-path handler found")
	}
}

// ruleTuningNotInDecisions: tuning knobs reach only pool limits, channel capacities and the like.
func ruleTuningNotInDecisions(e *Engine, r *Reporter) {
	r.Rule("tuning-knob-sinks", "concurrency and breadth limits are only ever used as pool limits, channel capacities, SetLimit arguments or metrics — never in a branch condition or arithmetic that could cut a result set", 4)
	knobs := []struct{ pkg, typ, field string }{
		{"internal/graph", "LocalChecker", "concurrencyLimit"},
		{"internal/check", "Resolver", "concurrencyLimit"},
		{"internal/check", "Recursive", "concurrencyLimit"},
		{"pkg/server/commands", "CheckQuery", "maxConcurrentReads"},
		{"pkg/server/commands", "ListObjectsQuery", "maxConcurrentReads"},
		{"pkg/server/commands", "ListObjectsQuery", "resolveNodeBreadthLimit"},
		{"pkg/server/commands/reverseexpand", "ReverseExpandQuery", "resolveNodeBreadthLimit"},
		{"pkg/server/commands/listusers", "listUsersQuery", "resolveNodeBreadthLimit"},
	}
	for _, k := range knobs {
		if !e.HasPkg(k.pkg) {
			continue
		}
		o := e.Pkg(k.pkg).Types.Scope().Lookup(k.typ)
		if o == nil {
			continue
		}
		key := fmt.Sprintf("%s.%s.%s", k.pkg, k.typ, k.field)
		bad := ""
		uses := 0
		for _, fn := range e.Fns {
			if isTestSupport(pkgOf(fn)) {
				continue
			}
			for _, b := range fn.Blocks {
				for _, in := range b.Instrs {
					fa, ok := in.(*ssa.FieldAddr)
					if !ok || fieldName(fa.X.Type(), fa.Field) != k.field || typeBaseName(derefType(fa.X.Type())) != k.typ {
						continue
					}
					for _, ref := range *fa.Referrers() {
						u, ok := ref.(*ssa.UnOp)
						if !ok {
							continue // a store (configuration)
						}
						uses++
						if w := knobMisuse(u, 0); w != "" && bad == "" {
							bad = w + " in " + fname(topLevel(fn))
						}
					}
				}
			}
		}
		if uses == 0 {
			continue
		}
		r.Check(bad == "", key, "", fmt.Sprintf("%d reads, all flow into limits/capacities/options", uses), "the tuning knob influences a decision: "+bad)
	}
}

// knobMisuse follows a knob value: comparisons and arithmetic other than conversion are misuse.
func knobMisuse(v ssa.Value, depth int) string {
	if depth > 4 || v.Referrers() == nil {
		return ""
	}
	for _, ref := range *v.Referrers() {
		switch x := ref.(type) {
		case *ssa.Convert:
			if w := knobMisuse(x, depth+1); w != "" {
				return w
			}
		case *ssa.ChangeType:
			if w := knobMisuse(x, depth+1); w != "" {
				return w
			}
		case *ssa.BinOp:
			switch x.Op.String() {
			case "<", ">", "<=", ">=", "==", "!=":
				// comparisons against zero to choose a default are configuration handling
				if n, ok := constInt(x.Y); ok && n == 0 {
					continue
				}
				if n, ok := constInt(x.X); ok && n == 0 {
					continue
				}
				return "compared (" + describe_(x) + ")"
			default:
				_, cx := unwrap(x.X).(*ssa.Const)
				_, cy := unwrap(x.Y).(*ssa.Const)
				if (cx || cy) && (x.Op.String() == "+" || x.Op.String() == "*") {
					if w := knobMisuse(x, depth+1); w != "" {
						return w
					}
					continue
				}
				return "used in arithmetic (" + describe_(x) + ")"
			}
		case *ssa.If:
			return "branch condition"
		case *ssa.Slice:
			return "used to slice data"
		}
	}
	return ""
}

// ruleConditionFilterInstalled: the weighted-graph engine installs the condition filter unless the edge is
// provably unconditioned: conditions is empty, or it has exactly one entry and that entry is NoCond.
// A skip path must therefore pass (A) an empty-list edge, or BOTH (B1) a "at most one entry" edge and
// (B2) a "first entry is NoCond" edge.  (A or B1) and (A or B2) are two must-pass checks.
func ruleConditionFilterInstalled(e *Engine, r *Reporter) {
	r.Rule("condition-filter-skip-only-when-unconditioned", "every path of a weighted-graph iterator builder that does not install BuildConditionTupleKeyFilter passes an edge proving the condition list is empty, or both an edge proving it has at most one entry and an edge proving that entry is NoCond", 3)
	lenOf := func(v ssa.Value) bool {
		c, ok := unwrap(v).(*ssa.Call)
		if !ok {
			return false
		}
		b, ok := c.Call.Value.(*ssa.Builtin)
		return ok && b.Name() == "len"
	}
	cmpLen := func(f Fact, k int64) (implied bool) {
		// does the fact imply len <= k ?
		if !lenOf(f.X) {
			return false
		}
		n, ok := constInt(f.Y)
		if !ok {
			return false
		}
		switch f.Kind {
		case ">":
			return !f.Positive && n <= k
		case ">=":
			return !f.Positive && n <= k+1
		case "<":
			return f.Positive && n <= k+1
		case "<=":
			return f.Positive && n <= k
		case "eq":
			return f.Positive && n <= k
		}
		return false
	}
	isEmpty := func(f Fact) bool { return cmpLen(f, 0) }
	atMostOne := func(f Fact) bool { return cmpLen(f, 1) }
	firstIsNoCond := func(f Fact) bool {
		if f.Kind != "eq" || !f.Positive {
			return false
		}
		if s, ok := constString(f.Y); !ok || s != "" {
			return false
		}
		u, ok := unwrap(f.X).(*ssa.UnOp)
		if !ok {
			return false
		}
		ia, ok := u.X.(*ssa.IndexAddr)
		if !ok {
			return false
		}
		n, ok := constInt(ia.Index)
		return ok && n == 0
	}
	n := 0
	for _, fn := range e.Fns {
		if short(pkgOf(fn)) != "internal/check" {
			continue
		}
		var call ssa.Instruction
		eachInstr(fn, false, func(in ssa.Instruction) {
			if isCallNamed(in, "BuildConditionTupleKeyFilter") {
				call = in
			}
		})
		if call == nil {
			continue
		}
		n++
		okRet := func(in ssa.Instruction) bool {
			ret, ok := in.(*ssa.Return)
			if !ok {
				return false
			}
			if len(ret.Results) > 0 {
				last := ret.Results[len(ret.Results)-1]
				if isErrorType(last.Type()) && !isNilConst(last) {
					return false
				}
			}
			return true
		}
		c1 := cutSpec{instr: func(in ssa.Instruction) bool { return in == call }, edge: func(f Fact) bool { return isEmpty(f) || atMostOne(f) }}
		c2 := cutSpec{instr: func(in ssa.Instruction) bool { return in == call }, edge: func(f Fact) bool { return isEmpty(f) || firstIsNoCond(f) }}
		r1, _ := reachable(fn, nil, okRet, c1)
		r2, _ := reachable(fn, nil, okRet, c2)
		r.Check(!r1 && !r2, fname(fn)+" | condition filter skipped only for an unconditioned edge", e.instrPos(call), "skip paths prove len<=1 and conditions[0]==NoCond (or an empty list)",
			fmt.Sprintf("the condition filter can be skipped on a path that does not establish that the edge is unconditioned (skip without len<=1: %v, skip without first==NoCond: %v): conditional tuples on such an edge count as satisfied without their condition being evaluated", r1, r2))
	}
	if n == 0 {
		blind("condition-filter-skip: no BuildConditionTupleKeyFilter call found in internal/check")
	}
}

// ruleStrategyPredicateRejectsOverweight: the typesystem predicates that license a fast strategy are universal over
// the relation's edges: once an edge heavier than the strategy allows has been seen (`weight > k`), the predicate
// cannot answer true any more.  (Turning that exit into a `continue` offers the strategy when merely *some* edge
// qualifies.)
func ruleStrategyPredicateRejectsOverweight(e *Engine, r *Reporter) {
	r.Rule("strategy-predicate-rejects-overweight", "in every typesystem predicate that licenses a fast strategy (…Use…Resolver…), the branch taken when an edge's weight exceeds the strategy's bound cannot reach a return other than `false`", 2)
	n := 0
	for _, fn := range e.Fns {
		if short(pkgOf(fn)) != "pkg/typesystem" || fn.Parent() != nil || fn.Signature.Recv() == nil {
			continue
		}
		nm := pinnedSpellingName(fn)
		if !strings.Contains(nm, "Use") || !strings.Contains(nm, "Resolver") {
			continue
		}
		res := fn.Signature.Results()
		if res.Len() != 1 || !types.Identical(res.At(0).Type(), types.Typ[types.Bool]) {
			continue
		}
		ord := 0
		for _, b := range fn.Blocks {
			for si := range b.Succs {
				for _, f := range edgeFacts(b, si) {
					if f.Kind != ">" || !f.Positive || f.Y == nil {
						continue
					}
					if _, ok := constInt(f.Y); !ok {
						continue
					}
					fromWeight := derivesFrom(f.X, func(v ssa.Value) bool {
						c, ok := v.(*ssa.Call)
						if !ok {
							return false
						}
						o := calleeObj(c)
						return o != nil && o.Name() == "GetWeight"
					})
					if !fromWeight {
						continue
					}
					n++
					reach := blocksReachableFrom(b.Succs[si])
					bad := ""
					for _, rs := range returnSites(fn) {
						if !reach[rs.At.Block()] || len(rs.Results) != 1 {
							continue
						}
						if bv, isC := constBool(rs.Results[0]); isC && !bv {
							continue
						}
						bad = e.instrPos(rs.At)
					}
					key := fmt.Sprintf("%s | overweight edge #%d", fname(fn), ord)
					ord++
					r.Check(bad == "", key, e.instrPos(b.Instrs[len(b.Instrs)-1]), "only `return false` is reachable", "after an edge heavier than the strategy's bound the predicate can still answer true (return at "+bad+"): the fast strategy is offered for a relation where only some of the edges qualify, and it does not see the paths through the others")
				}
			}
		}
	}
	if n == 0 {
		blind("strategy-predicate-rejects-overweight: no weight-bound test found in the typesystem strategy predicates")
	}
}

func pinnedSpellingName(fn *ssa.Function) string {
	s := fname(fn)
	if i := strings.LastIndex(s, "."); i >= 0 {
		return s[i+1:]
	}
	return s
}

// ruleWalkHandlerResults: typesystem.WalkUsersetRewrite stops at the first handler result that is not nil.  A handler
// that returns a boolean boxed in the interface result therefore stops the walk even when the boolean is false
// (a boxed false is not nil).  Every handler returns either nil or a value that is only produced on a hit.
func ruleWalkHandlerResults(e *Engine, r *Reporter) {
	r.Rule("walk-handler-returns-nil-or-hit", "every handler passed to WalkUsersetRewrite returns the nil interface to continue the walk; no return boxes a boolean that can be false (a boxed false is non-nil and ends the walk at the first node visited)", 3)
	n := 0
	for _, fn := range e.Fns {
		if isTestSupport(pkgOf(fn)) {
			continue
		}
		eachInstr(fn, false, func(in ssa.Instruction) {
			c, ok := in.(ssa.CallInstruction)
			if !ok {
				return
			}
			o := calleeObj(c)
			if o == nil || o.Name() != "WalkUsersetRewrite" {
				return
			}
			for _, a := range c.Common().Args {
				if _, isSig := a.Type().Underlying().(*types.Signature); !isSig {
					continue
				}
				var h *ssa.Function
				switch x := unwrap(a).(type) {
				case *ssa.MakeClosure:
					h, _ = x.Fn.(*ssa.Function)
				case *ssa.Function:
					h = x
				}
				if h == nil || len(h.Blocks) == 0 {
					continue
				}
				n++
				key := fmt.Sprintf("%s | walk handler #%d", fname(topLevel(fn)), ordinalIn(topLevel(fn), c))
				if why, ok := walkHandlerExempt[fname(topLevel(fn))]; ok {
					r.OK(key, e.instrPos(in), "exempt: "+why)
					continue
				}
				bad := ""
				for _, rs := range returnSites(h) {
					if len(rs.Results) == 0 {
						continue
					}
					mi, ok := rs.Results[0].(*ssa.MakeInterface)
					if !ok {
						continue
					}
					if b, isBool := mi.X.Type().Underlying().(*types.Basic); isBool && b.Info()&types.IsBoolean != 0 {
						if bv, isC := constBool(mi.X); isC && bv {
							continue
						}
						bad = e.instrPos(rs.At)
					}
				}
				r.Check(bad == "", key, e.instrPos(in), "returns nil or a hit", "the handler returns a boxed boolean that can be false ("+bad+"): the walk stops at the first node it visits, later branches of the rewrite are never examined")
			}
		})
	}
	if n == 0 {
		blind("walk-handler-returns-nil-or-hit: no WalkUsersetRewrite handler found")
	}
	// the exemption's premise: the two wrappers of relationInvolves are always asked together
	callersOf := func(name string) map[*ssa.Function]bool {
		out := map[*ssa.Function]bool{}
		if o := e.funcObjOpt("pkg/typesystem", "TypeSystem."+name); o != nil {
			if f := e.FnOf(o); f != nil {
				for _, cs := range e.allCallSites(f) {
					if !isTestSupport(pkgOf(cs.Parent())) && topLevel(cs.Parent()) != f {
						out[topLevel(cs.Parent())] = true
					}
				}
			}
		}
		return out
	}
	ci, cx := callersOf("RelationInvolvesIntersection"), callersOf("RelationInvolvesExclusion")
	same := len(ci) == len(cx)
	for f := range ci {
		if !cx[f] {
			same = false
		}
	}
	r.Check(same, "RelationInvolvesIntersection and RelationInvolvesExclusion are asked together", "", fmt.Sprintf("%d caller(s), each asks both", len(ci)), "a caller consults only one of RelationInvolvesIntersection / RelationInvolvesExclusion: relationInvolves stops at the first set operator of either kind, so a single answer can be a false negative (e.g. exclusion nested under an intersection)")
}


// walkHandlerExempt: one named function, one reason.
var walkHandlerExempt = map[string]string{
	"(*pkg/typesystem.TypeSystem).relationInvolves": "returns `target == <operator>` at the first set operator it meets, which ends the walk with false for the other operator; its two exported wrappers are consumed only as RelationInvolvesIntersection || RelationInvolvesExclusion (internal/graph), and for that disjunction stopping at the first set operator is exact — no property depends on either answer alone",
}

// ruleSingleEdgeFromLoop: a function of the model graph that returns *one* edge picked while looping over a node's
// edges must notice when there is more than one candidate.  A loop-carried edge variable that is simply overwritten
// (last one wins) and returned hides every earlier candidate from the caller; the caller (ResolveRecursive) then
// resolves the relation through that edge only.  Accepted shapes: the candidates are collected and counted, or the
// carried value is compared with nil before it is overwritten.
func ruleSingleEdgeFromLoop(e *Engine, r *Reporter) {
	r.Rule("single-edge-not-last-wins", "no function of internal/modelgraph returns an edge held in a loop-carried variable that later iterations overwrite without the previous value ever being tested (a second recursive edge would silently replace the first)", 1)
	n := 0
	for _, fn := range e.Fns {
		if short(pkgOf(fn)) != "internal/modelgraph" || fn.Parent() != nil {
			continue
		}
		res := fn.Signature.Results()
		returnsEdge := false
		for i := 0; i < res.Len(); i++ {
			if typeBaseName(derefType(res.At(i).Type())) == "WeightedAuthorizationModelEdge" {
				if _, isPtr := res.At(i).Type().Underlying().(*types.Pointer); isPtr {
					returnsEdge = true
				}
			}
		}
		hasLoop := false
		for _, b := range fn.Blocks {
			if loopHeader(b) == b {
				hasLoop = true
			}
		}
		if !returnsEdge && !hasLoop {
			continue
		}
		if !returnsEdge {
			continue
		}
		n++
		bad := ""
		for _, b := range fn.Blocks {
			if loopHeader(b) != b {
				continue
			}
			for _, in := range b.Instrs {
				ph, ok := in.(*ssa.Phi)
				if !ok {
					break
				}
				if typeBaseName(derefType(ph.Type())) != "WeightedAuthorizationModelEdge" {
					continue
				}
				// overwritten inside the loop: an incoming value from a block the header dominates that is not the phi itself
				overwritten := false
				for i, ed := range ph.Edges {
					if b.Dominates(b.Preds[i]) && ed != ssa.Value(ph) {
						overwritten = true
					}
				}
				if !overwritten {
					continue
				}
				// returned?
				returned := false
				for _, rs := range returnSites(fn) {
					for _, rv := range rs.Results {
						if derivesFrom(rv, func(v ssa.Value) bool { return v == ssa.Value(ph) }) {
							returned = true
						}
					}
				}
				if !returned {
					continue
				}
				// ever tested against nil inside the function?
				tested := false
				for _, bb := range fn.Blocks {
					for si := range bb.Succs {
						for _, f := range edgeFacts(bb, si) {
							if f.Kind == "nil" && loopHeader(bb) != nil && derivesFrom(f.X, func(v ssa.Value) bool { return v == ssa.Value(ph) }) && unwrap(f.X) == ssa.Value(ph) {
								tested = true
							}
						}
					}
				}
				if !tested {
					bad = e.instrPos(ph)
				}
			}
		}
		r.Check(bad == "", fname(fn)+" | returned edge is not a last-wins loop variable", e.pos(fn.Pos()), "candidates are counted or the carried value is tested", "the edge this function returns is a loop variable that each further candidate overwrites ("+bad+"): with two recursive edges on one relation only the last is resolved and paths alternating between them are lost (the weighted-graph engine denies where the default engine allows)")
	}
	if n == 0 {
		blind("single-edge-not-last-wins: no edge-returning function found in internal/modelgraph")
	}
}


// strategyTableEntryGuarded: `in` creates a handler value that is stored under the constant strategy name in a map
// the enclosing function returns (a name-keyed dispatch table).  Returns 0 when this is not that shape; otherwise
// +1/-1 for "every consultation of the table uses a name that is a member of the offered-strategies map (or comes
// from its Select), and that name is only offered under the predicate" holding or not.
func (e *Engine) strategyTableEntryGuarded(in ssa.Instruction, fn *ssa.Function, sname string, preds []string, pcut cutSpec) (int, string) {
	mc, ok := in.(*ssa.MakeClosure)
	if !ok || mc.Referrers() == nil {
		return 0, ""
	}
	inTable := false
	var vals []ssa.Value
	vals = append(vals, mc)
	for _, ref := range *mc.Referrers() { // the closure may be converted to a named func type first
		if ct, ok := ref.(*ssa.ChangeType); ok {
			vals = append(vals, ct)
		}
	}
	for _, v := range vals {
		if v.Referrers() == nil {
			continue
		}
		for _, ref := range *v.Referrers() {
			if mu, ok := ref.(*ssa.MapUpdate); ok && mu.Value == v {
				if s, ok := constString(mu.Key); ok && s == sname {
					inTable = true
				}
			}
		}
	}
	if !inTable || fn.Signature.Results().Len() != 1 {
		return 0, ""
	}
	if _, isMap := fn.Signature.Results().At(0).Type().Underlying().(*types.Map); !isMap {
		return 0, ""
	}
	memberCut := cutSpec{edge: func(f Fact) bool {
		if f.Kind != "bool" || !f.Positive {
			return false
		}
		ex, ok := unwrap(f.X).(*ssa.Extract)
		if !ok || ex.Index != 1 {
			return false
		}
		lk, ok := ex.Tuple.(*ssa.Lookup)
		return ok && lk.CommaOk && isPlanMap(lk.X.Type())
	}}
	fromSelect := func(x ssa.Value) bool {
		if u, ok := unwrap(x).(*ssa.UnOp); ok {
			if fa, ok := u.X.(*ssa.FieldAddr); ok {
				x = fa.X
			}
		}
		return derivesFrom(x, func(v ssa.Value) bool {
			c, ok := v.(*ssa.Call)
			if !ok {
				return false
			}
			o := calleeObj(c)
			if o == nil || o.Name() != "Select" {
				return false
			}
			for _, a := range c.Call.Args {
				if isPlanMap(a.Type()) {
					return true
				}
			}
			return false
		})
	}
	sites := e.allCallSites(fn)
	if len(sites) == 0 {
		return -1, "the strategy table is never consulted through a resolvable call"
	}
	lookups := 0
	for _, cs := range sites {
		cv, ok := cs.(ssa.Value)
		if !ok || cv.Referrers() == nil {
			return -1, "the strategy table escapes at " + e.instrPos(cs)
		}
		caller := topLevel(cs.Parent())
		for _, ref := range *cv.Referrers() {
			lk, ok := ref.(*ssa.Lookup)
			if !ok || lk.X != cv {
				return -1, "the strategy table is used other than by a lookup at " + e.instrPos(cs)
			}
			lookups++
			if !(e.guardedAnyLevel(lk, memberCut) || fromSelect(lk.Index)) {
				return -1, "the table is consulted at " + e.instrPos(lk) + " with a name that is neither a member of the offered-strategies map nor its Select result: the handler for " + sname + " can run where " + strings.Join(preds, "/") + " was not established"
			}
		}
		// the name is only offered under the predicate in that caller
		offers, offersOK := 0, true
		for _, g := range e.Fns {
			if topLevel(g) != caller {
				continue
			}
			eachInstr(g, false, func(i2 ssa.Instruction) {
				mu, ok := i2.(*ssa.MapUpdate)
				if !ok || !isPlanMap(mu.Map.Type()) {
					return
				}
				if s, ok := constString(mu.Key); ok && s == sname {
					offers++
					if !e.guardedAnyLevel(i2, pcut) {
						offersOK = false
					}
				}
			})
		}
		if offers == 0 || !offersOK {
			return -1, fmt.Sprintf("in %s the strategy name %q is offered %d time(s), not always behind %s", fname(caller), sname, offers, strings.Join(preds, "/"))
		}
	}
	if lookups == 0 {
		return -1, "the strategy table is never looked up"
	}
	return 1, fmt.Sprintf("entry %q of a dispatch table; %d consultation(s), each with an offered name; the name is offered only behind %s", sname, lookups, strings.Join(preds, "/"))
}

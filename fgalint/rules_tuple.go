package main

// C29 (thin): converters copy every field; user conversion covers every variant.

import (
	"fmt"
	"go/types"
	"strings"

	"golang.org/x/tools/go/ssa"
)

func ruleTupleConverters(e *Engine, r *Reporter) {
	r.Rule("converter-copies-all-fields", "each tuple-key converter in pkg/tuple reads every exported field of its source message and assigns every exported field the two types share", 10)
	for _, name := range []string{"ConvertCheckRequestTupleKeyToTupleKey", "ConvertAssertionTupleKeyToTupleKey", "ConvertReadRequestTupleKeyToTupleKey", "TupleKeyToTupleKeyWithoutCondition", "TupleKeyWithoutConditionToTupleKey"} {
		fn := e.Func("pkg/tuple", name)
		src := derefType(fn.Params[0].Type()).Underlying().(*types.Struct)
		dst := derefType(fn.Signature.Results().At(0).Type()).Underlying().(*types.Struct)
		dstName := typeBaseName(derefType(fn.Signature.Results().At(0).Type()))
		dstFields := map[string]bool{}
		for i := 0; i < dst.NumFields(); i++ {
			if dst.Field(i).Exported() {
				dstFields[dst.Field(i).Name()] = true
			}
		}
		paths := e.accessPaths(fn, fn.Params[0], 2)
		written := structFieldsWritten(fn, dstName)
		for i := 0; i < src.NumFields(); i++ {
			f := src.Field(i)
			if !f.Exported() || !dstFields[f.Name()] {
				continue
			}
			r.Check(paths.has(f.Name()) && written[f.Name()], fmt.Sprintf("pkg/tuple.%s field=%s", name, f.Name()), e.pos(fn.Pos()), "read and assigned", fmt.Sprintf("the converter does not carry field %s over (read: %v, assigned: %v)", f.Name(), paths.has(f.Name()), written[f.Name()]))
		}
	}
	r.Rule("user-variants-total", "UserProtoToString handles the three User variants (object, userset, wildcard) with a failing default, and StringToUserProto produces each of them", 2)
	for _, s := range e.typeSwitches() {
		if s.Func == "UserProtoToString" {
			ok, d := judgeSwitch(s, nil)
			r.Check(ok && len(s.Missing) == 0, s.key(), e.pos(s.Pos), d, d)
		}
	}
	sp := e.Func("pkg/tuple", "StringToUserProto")
	kinds := map[string]bool{}
	eachInstr(sp, false, func(in ssa.Instruction) {
		if a, ok := in.(*ssa.Alloc); ok {
			n := typeBaseName(derefType(a.Type()))
			if strings.HasPrefix(n, "User_") {
				kinds[n] = true
			}
		}
	})
	r.Check(kinds["User_Object"] && kinds["User_Userset"] && kinds["User_Wildcard"], "pkg/tuple.StringToUserProto produces all variants", e.pos(sp.Pos()), fmt.Sprintf("%v", keysOf(kinds)), fmt.Sprintf("StringToUserProto no longer produces all three variants: %v", keysOf(kinds)))
}

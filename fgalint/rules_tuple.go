package main

// C29 (thin): converters copy every field; user conversion covers every variant.

import (
	"fmt"
	"go/types"
	"strings"

	"golang.org/x/tools/go/ssa"
)

func ruleTupleConverters(e *Engine, r *Reporter) {
	r.Rule("converter-copies-all-fields", "each tuple-key converter in pkg/tuple reads every exported field of its source message and assigns every exported field the two types share", 10)
	for _, name := range []string{"ConvertCheckRequestTupleKeyToTupleKey", "ConvertAssertionTupleKeyToTupleKey", "ConvertReadRequestTupleKeyToTupleKey", "TupleKeyToTupleKeyWithoutCondition", "TupleKeyWithoutConditionToTupleKey"} {
		fn := e.Func("pkg/tuple", name)
		src := derefType(fn.Params[0].Type()).Underlying().(*types.Struct)
		dst := derefType(fn.Signature.Results().At(0).Type()).Underlying().(*types.Struct)
		dstName := typeBaseName(derefType(fn.Signature.Results().At(0).Type()))
		dstFields := map[string]bool{}
		for i := 0; i < dst.NumFields(); i++ {
			if dst.Field(i).Exported() {
				dstFields[dst.Field(i).Name()] = true
			}
		}
		paths := e.accessPaths(fn, fn.Params[0], 2)
		written := structFieldsWritten(fn, dstName)
		for i := 0; i < src.NumFields(); i++ {
			f := src.Field(i)
			if !f.Exported() || !dstFields[f.Name()] {
				continue
			}
			r.Check(paths.has(f.Name()) && written[f.Name()], fmt.Sprintf("pkg/tuple.%s field=%s", name, f.Name()), e.pos(fn.Pos()), "read and assigned", fmt.Sprintf("the converter does not carry field %s over (read: %v, assigned: %v)", f.Name(), paths.has(f.Name()), written[f.Name()]))
		}
	}
	r.Rule("user-variants-total", "UserProtoToString handles the three User variants (object, userset, wildcard) with a failing default, and StringToUserProto produces each of them", 2)
	for _, s := range e.typeSwitches() {
		if s.Func == "UserProtoToString" {
			ok, d := judgeSwitch(s, nil)
			r.Check(ok && len(s.Missing) == 0, s.key(), e.pos(s.Pos), d, d)
		}
	}
	sp := e.Func("pkg/tuple", "StringToUserProto")
	kinds := map[string]bool{}
	eachInstr(sp, false, func(in ssa.Instruction) {
		if a, ok := in.(*ssa.Alloc); ok {
			n := typeBaseName(derefType(a.Type()))
			if strings.HasPrefix(n, "User_") {
				kinds[n] = true
			}
		}
	})
	r.Check(kinds["User_Object"] && kinds["User_Userset"] && kinds["User_Wildcard"], "pkg/tuple.StringToUserProto produces all variants", e.pos(sp.Pos()), fmt.Sprintf("%v", keysOf(kinds)), fmt.Sprintf("StringToUserProto no longer produces all three variants: %v", keysOf(kinds)))
}

// ruleControlCharsRejectedUnconditionally: the IsValid* scanners reject control characters with
// unicode.IsControl applied to every rune: the call is not made conditional on the rune's value (a "fast path"
// comparison in front of it is how DEL or C1 controls slip through), and a true result returns false.
func ruleControlCharsRejectedUnconditionally(e *Engine, r *Reporter) {
	r.Rule("control-chars-rejected", "every IsValid* scanner in pkg/tuple applies unicode.IsControl to every rune of its input unconditionally and rejects on a hit", 4)
	n := 0
	for _, fn := range e.Fns {
		if short(pkgOf(fn)) != "pkg/tuple" || !strings.HasPrefix(fn.Name(), "IsValid") || fn.Parent() != nil {
			continue
		}
		eachInstr(fn, false, func(in ssa.Instruction) {
			c, ok := in.(*ssa.Call)
			if !ok {
				return
			}
			g := c.Call.StaticCallee()
			if g == nil || g.Name() != "IsControl" || g.Pkg == nil || g.Pkg.Pkg.Path() != "unicode" {
				return
			}
			n++
			var conds []string
			for _, f := range controlFacts(in.Block()) {
				if f.If != nil && loopHeader(f.If.Block()) == f.If.Block() {
					continue // the scan loop's own continuation test
				}
				conds = append(conds, describeFact(f))
			}
			r.Check(len(conds) == 0, fname(fn)+" | IsControl on every rune", e.instrPos(in), "unconditional inside the scan loop", fmt.Sprintf("unicode.IsControl is only consulted when %v: control characters outside that range are accepted into identifiers", conds))
			// a hit rejects
			rej := false
			for _, ref := range *c.Referrers() {
				ifi, ok := ref.(*ssa.If)
				if !ok {
					continue
				}
				for _, in2 := range ifi.Block().Succs[0].Instrs {
					if ret, ok := in2.(*ssa.Return); ok && len(ret.Results) == 1 {
						if b, ok := constBool(ret.Results[0]); ok && !b {
							rej = true
						}
					}
				}
			}
			r.Check(rej, fname(fn)+" | control character rejects", e.instrPos(in), "returns false", "a control character no longer makes the scanner return false")
		})
	}
	// every scanner (a string-ranging IsValid* function) consults unicode.IsControl itself or through a same-package helper
	for _, fn := range e.Fns {
		if short(pkgOf(fn)) != "pkg/tuple" || !strings.HasPrefix(fn.Name(), "IsValid") || fn.Parent() != nil {
			continue
		}
		ranges := false
		eachInstr(fn, false, func(in ssa.Instruction) {
			if rg, ok := in.(*ssa.Range); ok {
				if b, ok := rg.X.Type().Underlying().(*types.Basic); ok && b.Info()&types.IsString != 0 {
					ranges = true
				}
			}
		})
		if !ranges {
			continue
		}
		has := false
		for _, g := range sameePackageRegion(fn, 2) {
			eachInstr(g, false, func(in ssa.Instruction) {
				if c, ok := in.(*ssa.Call); ok {
					if sc := c.Call.StaticCallee(); sc != nil && sc.Name() == "IsControl" && sc.Pkg != nil && sc.Pkg.Pkg.Path() == "unicode" {
						has = true
					}
				}
			})
		}
		r.Check(has, fname(fn)+" | consults unicode.IsControl", e.pos(fn.Pos()), "directly or through a helper", "this scanner no longer consults unicode.IsControl for its runes (a hand-written range test misses control blocks such as C1, U+0080–U+009F)")
	}
	if n == 0 {
		return
	}
}

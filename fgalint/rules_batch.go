package main

// C07: BatchCheck de-duplication key and fan-out.

import (
	"fmt"
	"go/types"
	"strings"

	"golang.org/x/tools/go/ssa"
)

func ruleBatchCheck(e *Engine, r *Reporter) {
	r.Rule("batch-dedup-key-covers-inputs", "every field of a BatchCheckItem that is forwarded to the per-item Check (and the request-level store and model) is read by the de-duplication key, down to the components of the tuple key", 6)
	exec := e.Func("pkg/server/commands", "BatchCheckQuery.Execute")
	keyFn := e.Func("pkg/server/commands", "generateCacheKeyFromCheck")
	// getters of BatchCheckItem used to build CheckCommandParams inside Execute (and its closures)
	forwarded := map[string]bool{}
	eachInstr(exec, true, func(in ssa.Instruction) {
		st, ok := in.(*ssa.Store)
		if !ok {
			return
		}
		fa, ok := st.Addr.(*ssa.FieldAddr)
		if !ok || typeBaseName(derefType(fa.X.Type())) != "CheckCommandParams" {
			return
		}
		v := unwrap(st.Val)
		if c, ok := v.(*ssa.Call); ok {
			if o := calleeObj(c); o != nil {
				if g, isG := getterName(o); isG && len(c.Call.Args) > 0 && typeBaseName(derefType(c.Call.Args[0].Type())) == "BatchCheckItem" {
					forwarded[g] = true
				}
			}
		}
	})
	if len(forwarded) < 2 {
		blind("batch-dedup-key: found only %v forwarded from BatchCheckItem", keysOf(forwarded))
	}
	paths := e.accessPaths(keyFn, keyFn.Params[0], 3)
	for _, g := range keysOf(forwarded) {
		r.Check(paths.has(g), "generateCacheKeyFromCheck item."+g, e.pos(keyFn.Pos()), "forwarded to Check and part of the key", fmt.Sprintf("BatchCheckItem.%s is forwarded to the per-item Check but is not read by the de-duplication key: two items differing only in it are answered from each other", g))
	}
	// tuple key components
	tk := e.ExtNamed("github.com/openfga/api/proto/openfga/v1", "CheckRequestTupleKey").Underlying().(*types.Struct)
	for i := 0; i < tk.NumFields(); i++ {
		f := tk.Field(i)
		if !f.Exported() {
			continue
		}
		r.Check(paths.has("TupleKey."+f.Name()), "generateCacheKeyFromCheck item.TupleKey."+f.Name(), e.pos(keyFn.Pos()), "part of the key", "tuple key component "+f.Name()+" is not part of the de-duplication key")
	}
	// contextual tuples reach the invariant (variadic argument must not be dropped)
	ctOK := false
	eachInstr(keyFn, false, func(in ssa.Instruction) {
		c, ok := in.(ssa.CallInstruction)
		if !ok {
			return
		}
		if g := staticCallee(c); g != nil && g.Name() == "InvariantCacheKey" {
			d := describe_(c.Common().Args[len(c.Common().Args)-1])
			if strings.Contains(d, "GetContextualTuples()") {
				ctOK = true
			}
		}
	})
	r.Check(ctOK, "generateCacheKeyFromCheck contextual tuples reach InvariantCacheKey", e.pos(keyFn.Pos()), "variadic contextual tuples passed", "the item's contextual tuples are not passed to InvariantCacheKey (its variadic parameter is silently empty)")
	// request-level inputs
	for i, p := range keyFn.Params[1:] {
		used := p.Referrers() != nil && len(*p.Referrers()) > 0
		r.Check(used, fmt.Sprintf("generateCacheKeyFromCheck request-level input #%d", i), e.pos(keyFn.Pos()), "used in the key", "store/model parameter is ignored by the key")
	}

	r.Rule("batch-items-isolated", "the per-item closures run on the shared pool never return a non-nil error (the pool cancels all siblings on error) and every path through them stores an outcome under the item's key", 2)
	n := 0
	for _, cl := range exec.AnonFuncs {
		// closures passed to pool.Go: signature func(context.Context) error
		if cl.Signature.Results().Len() != 1 || !isErrorType(cl.Signature.Results().At(0).Type()) {
			continue
		}
		n++
		allNil := true
		stores := true
		for _, rs := range returnSites(cl) {
			if !rs.isSuccess() {
				allNil = false
			}
			// every return is preceded by a resultMap.Store
			g, _ := mustPass(cl, rs.At, cutSpec{instr: func(in ssa.Instruction) bool {
				c, ok := in.(ssa.CallInstruction)
				if !ok {
					return false
				}
				f := c.Common().StaticCallee()
				return f != nil && f.Name() == "Store" && typeBaseName(f.Signature.Recv().Type()) == "Map"
			}})
			if !g {
				stores = false
			}
		}
		r.Check(allNil, fmt.Sprintf("%s | per-item closure returns nil", fname(cl)), e.pos(cl.Pos()), "item errors are recorded in the outcome, never returned to the pool", "a per-item closure returns a non-nil error: the pool is created with cancel-on-error, so one failing item makes its siblings report context.Canceled instead of their own outcome")
		r.Check(stores, fmt.Sprintf("%s | every path stores an outcome", fname(cl)), e.pos(cl.Pos()), "outcome stored on every path", "a path through the per-item closure returns without storing an outcome for the key: the fan-out then dereferences a missing entry / the correlation ids get no outcome")
	}
	if n == 0 {
		blind("batch-items-isolated: no per-item closure found")
	}
}

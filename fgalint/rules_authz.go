package main

// C26: authorize before data, per RPC handler; fail-closed authorizer.

import (
	"fmt"
	"go/constant"
	"go/types"
	"sort"
	"strings"

	"golang.org/x/tools/go/ssa"
)

// authzGuards: Server methods whose nil error result means "authorised".
var authzGuardNames = []string{"checkAuthz", "checkCreateStoreAuthz", "checkWriteAuthz", "getAccessibleStores"}

// modelBeforeAuthz: handlers allowed to resolve the model before authorising (frozen, with reason).
var modelBeforeAuthz = map[string]string{
	"Write":        "needs the model to compute the modules of the written tuples for module-level authorisation",
	"ActionSearch": "needs the relation list of the resource type; every decision still comes from the native BatchCheck, which authorises",
}

func (e *Engine) serverHandlers(ifacePkg, ifaceName string) []*ssa.Function {
	iface := e.ExtNamed(ifacePkg, ifaceName).Underlying().(*types.Interface)
	var out []*ssa.Function
	for i := 0; i < iface.NumMethods(); i++ {
		m := iface.Method(i)
		if !m.Exported() {
			continue
		}
		fn := e.FuncOpt("pkg/server", "Server."+m.Name())
		if fn == nil {
			continue // embedded Unimplemented stub
		}
		out = append(out, fn)
	}
	sort.Slice(out, func(i, j int) bool { return out[i].Name() < out[j].Name() })
	return out
}

func ruleAuthorizeBeforeData(e *Engine, r *Reporter) {
	r.Rule("authorize-before-data", "in every RPC handler of *server.Server, each call that reaches data (commands.*, the datastore, v2Check, model resolution) is passed only after an authorisation helper was called with the request's store id and the handler's own API method and returned nil", 20)
	guards := map[*ssa.Function]bool{}
	for _, n := range authzGuardNames {
		guards[e.Func("pkg/server", "Server."+n)] = true
	}
	resolveTS := e.Func("pkg/server", "Server.resolveTypesystem")
	v2 := e.Func("pkg/server", "Server.v2Check")
	dsIface := e.Named("pkg/storage", "OpenFGADatastore").Underlying().(*types.Interface)
	native := e.serverHandlers("github.com/openfga/api/proto/openfga/v1", "OpenFGAServiceServer")
	authzen := e.serverHandlers("github.com/openfga/api/proto/authzen/v1", "AuthZenServiceServer")
	nativeSet := map[*ssa.Function]bool{}
	for _, h := range native {
		nativeSet[h] = true
	}
	if len(native) < 15 {
		blind("authorize-before-data: only %d native handlers resolved", len(native))
	}
	apiConst := func(name string) string {
		c, ok := e.Pkg("internal/utils/apimethod").Types.Scope().Lookup(name).(*types.Const)
		if !ok {
			return ""
		}
		return constant.StringVal(c.Val())
	}
	isSink := func(h *ssa.Function, in ssa.Instruction) (string, bool) {
		c, ok := in.(ssa.CallInstruction)
		if !ok {
			return "", false
		}
		if cc := c.Common(); cc.IsInvoke() {
			if it, ok := cc.Value.Type().Underlying().(*types.Interface); ok && types.Implements(it, dsIface) {
				return "datastore." + cc.Method.Name(), true
			}
			return "", false
		}
		g := staticCallee(c)
		if g == nil {
			return "", false
		}
		if g == v2 {
			return "v2Check", true
		}
		if g == resolveTS {
			if _, ok := modelBeforeAuthz[h.Name()]; ok {
				return "", false
			}
			return "resolveTypesystem", true
		}
		p := short(pkgOf(g))
		if p == "pkg/server/commands" || strings.HasPrefix(p, "pkg/server/commands/") {
			// option constructors (With…) and pure helpers configure a command; only constructors taking data handles and Execute* touch data
			n := g.Name()
			if strings.HasPrefix(n, "With") {
				return "", false
			}
			return "commands." + shortFuncName(g), true
		}
		return "", false
	}
	check := func(h *ssa.Function, isAuthZen bool) {
		want := apiConst(h.Name())
		// guard edge: err == nil where err is the result of a guard call with the right arguments
		okGuardCall := func(v ssa.Value) (bool, string) {
			c, ok := v.(*ssa.Call)
			if !ok {
				return false, ""
			}
			g := staticCallee(c)
			if g == nil || !guards[g] {
				return false, ""
			}
			args := c.Call.Args
			switch g.Name() {
			case "checkAuthz":
				store := describe_(args[2])
				meth, _ := constString(args[3])
				if !strings.Contains(store, "GetStoreId()") {
					return false, "checkAuthz called with a store id that is not the request's: " + store
				}
				if meth != want {
					return false, fmt.Sprintf("checkAuthz called with API method %q in handler %s", meth, h.Name())
				}
			case "checkWriteAuthz":
				if p, ok := unwrap(args[2]).(*ssa.Parameter); !ok || p.Parent() != h {
					return false, "checkWriteAuthz not called with the handler's request"
				}
			}
			return true, ""
		}
		var lastWhy string
		cut := cutSpec{edge: func(f Fact) bool {
			if f.Kind != "nil" || !f.Positive {
				return false
			}
			return derivesFrom(f.X, func(v ssa.Value) bool {
				ok, why := okGuardCall(v)
				if why != "" {
					lastWhy = why
				}
				return ok
			})
		}}
		nSinks := 0
		for _, fn := range withClosures(h) {
			for _, b := range fn.Blocks {
				for _, in := range b.Instrs {
					what, ok := isSink(h, in)
					if !ok {
						continue
					}
					nSinks++
					lastWhy = ""
					g := e.guardedAnyLevel(in, cut)
					key := fmt.Sprintf("%s | sink %s #%d", fname(h), what, ordinalIn(h, in))
					bad := "data is reached on a path where no authorisation helper has returned nil for this request"
					if lastWhy != "" {
						bad += " (" + lastWhy + ")"
					}
					r.Check(g, key, e.instrPos(in), "behind a successful authorisation", bad)
				}
			}
		}
		if isAuthZen {
			// decisions must come from native handlers
			calls := 0
			eachInstr(h, true, func(in ssa.Instruction) {
				if c, ok := in.(ssa.CallInstruction); ok {
					if g := staticCallee(c); g != nil && nativeSet[g] {
						calls++
					}
				}
			})
			_ = calls
		}
		if nSinks == 0 {
			// a handler with no sink at all is fine only if it delegates to native handlers or reads nothing
			r.OK(fname(h)+" | no direct data access", e.pos(h.Pos()), "handler reaches data only through other handlers")
		}
	}
	for _, h := range native {
		check(h, false)
	}
	for _, h := range authzen {
		check(h, true)
	}
}

// ruleFailClosed: the authorisation helpers return nil only after a positive decision.
func ruleFailClosed(e *Engine, r *Reporter) {
	r.Rule("authz-fail-closed", "authorisation helpers return nil only behind a positive decision (skip flag, allowed==true, or a nil error from the next layer); every error from the next layer becomes a denial", 8)
	skip := e.FuncObj("pkg/authclaims", "SkipAuthzCheckFromContext")
	type spec struct {
		pkg, fn string
		// names of callees whose nil error / true result is a positive decision
		decisions []string
	}
	specs := []spec{
		{"pkg/server", "Server.checkAuthz", []string{"Authorize"}},
		{"pkg/server", "Server.checkCreateStoreAuthz", []string{"AuthorizeCreateStore"}},
		{"pkg/server", "Server.checkWriteAuthz", []string{"GetModulesForWriteRequest", "checkAuthz"}},
		{"pkg/server", "Server.getAccessibleStores", []string{"AuthorizeListStores", "ListAuthorizedStores"}},
		{"internal/authz", "Authorizer.individualAuthorize", []string{"Check", "GetAllowed"}},
		{"internal/authz", "Authorizer.Authorize", []string{"individualAuthorize", "checkAuthClaims", "getRelation"}},
		{"internal/authz", "Authorizer.AuthorizeCreateStore", []string{"individualAuthorize"}},
		{"internal/authz", "Authorizer.AuthorizeListStores", []string{"individualAuthorize"}},
	}
	for _, s := range specs {
		fn := e.Func(s.pkg, s.fn)
		isDecision := func(v ssa.Value) (string, bool) {
			c, ok := v.(*ssa.Call)
			if !ok {
				return "", false
			}
			o := calleeObj(c)
			if o == nil {
				return "", false
			}
			for _, d := range s.decisions {
				if o.Name() == d {
					return d, true
				}
			}
			return "", false
		}
		for i, rs := range returnSites(fn) {
			ev := rs.errResult()
			if ev == nil {
				continue
			}
			key := fmt.Sprintf("%s | return #%d", fname(fn), i)
			if !isNilConst(ev) {
				// returning another layer's verdict verbatim is fine when it is a decision call or an error value
				r.OK(key, e.instrPos(rs.At), "returns "+describe_(ev))
				continue
			}
			// every decision the function consults must have been positive on the way here,
			// or the skip flag is set
			needed := map[string]bool{}
			for _, d := range s.decisions {
				needed[d] = true
			}
			skipCut := func(f Fact) bool {
				return f.Kind == "call" && f.Positive && f.Call != nil && calleeObj(f.Call) == skip
			}
			okAll := true
			var missing []string
			for d := range needed {
				if d == "checkAuthClaims" || d == "getRelation" || d == "GetModulesForWriteRequest" {
					continue // preparatory calls: their errors are checked by the error rule below
				}
				dd := d
				cut := cutSpec{edge: func(f Fact) bool {
					if skipCut(f) {
						return true
					}
					switch f.Kind {
					case "nil":
						if !f.Positive {
							return false
						}
						return derivesFrom(f.X, func(v ssa.Value) bool { n, ok := isDecision(v); return ok && n == dd })
					case "call":
						if f.Call == nil || !f.Positive {
							return false
						}
						n, ok := isDecision(f.Call.(ssa.Value))
						return ok && n == dd
					}
					return false
				}}
				if g, _ := mustPass(fn, rs.At, cut); !g {
					// a decision that is not consulted on this path at all does not count against it
					// only if another decision or the skip flag dominates; collect and judge below
					missing = append(missing, d)
				}
			}
			sort.Strings(missing)
			// the return must be behind at least one positive decision or the skip flag, and
			// behind ALL decisions of a conjunctive helper (individualAuthorize: err==nil AND allowed)
			conj := s.fn == "Authorizer.individualAuthorize" || s.fn == "Server.getAccessibleStores"
			if conj {
				okAll = len(missing) == 0
			} else {
				okAll = len(missing) < countDecisions(s.decisions)
			}
			r.Check(okAll, key, e.instrPos(rs.At), "nil is returned only behind a positive decision", fmt.Sprintf("returns nil (authorised) on a path where %v was not consulted with a positive outcome", missing))
		}
		// errors of consulted layers lead to a non-nil return: the non-nil edge of each decision's error cannot reach a nil return
		eachInstr(fn, false, func(in ssa.Instruction) {
			c, ok := in.(*ssa.Call)
			if !ok {
				return
			}
			name, isD := isDecision(c)
			if !isD || name == "GetAllowed" {
				return
			}
			if !errorResultUsed(c) {
				r.Bad(fmt.Sprintf("%s | error of %s consumed", fname(fn), name), e.instrPos(in), "the error of an authorisation layer is discarded")
				return
			}
			// from the err != nil edge no success return is reachable
			bad := false
			for _, b := range fn.Blocks {
				for si := range b.Succs {
					for _, f := range edgeFacts(b, si) {
						if f.Kind == "nil" && !f.Positive && derivesFrom(f.X, func(v ssa.Value) bool { return v == ssa.Value(c) }) {
							succ := b.Succs[si]
							if len(succ.Instrs) == 0 {
								continue
							}
							for _, rs := range returnSites(fn) {
								if !rs.isSuccess() {
									continue
								}
								if reach, _ := reachable(fn, pseudoStart(succ), func(x ssa.Instruction) bool { return x == rs.At }, cutSpec{}); reach || rs.At.Block() == succ {
									if rs.At.Block() == succ || reach {
										bad = true
									}
								}
							}
						}
					}
				}
			}
			r.Check(!bad, fmt.Sprintf("%s | error of %s denies", fname(fn), name), e.instrPos(in), "a non-nil error never reaches a nil return", "after this layer returned an error the helper can still return nil (authorised)")
		})
	}
}

func countDecisions(ds []string) int {
	n := 0
	for _, d := range ds {
		if d == "checkAuthClaims" || d == "getRelation" || d == "GetModulesForWriteRequest" {
			continue
		}
		n++
	}
	return n
}

// pseudoStart returns an instruction such that execution "after it" begins at the top of b:
// we use the last instruction of a predecessor-less view by returning nil-equivalent handled in reachable.
func pseudoStart(b *ssa.BasicBlock) ssa.Instruction {
	// reachable(from) starts after `from`; to start at the top of b we need an instruction whose
	// successor is b's first instruction. Use b's first instruction and accept that it is skipped
	// (it is never a return site At unless the block is a single return, handled by the caller).
	return b.Instrs[0]
}

// ruleSkipAuthzOwner: only internal/authz may set the skip-authorisation flag.
func ruleSkipAuthzOwner(e *Engine, r *Reporter) {
	r.Rule("skip-authz-owner", "ContextWithSkipAuthzCheck is called only inside internal/authz (and test support)", 1)
	o := e.FuncObj("pkg/authclaims", "ContextWithSkipAuthzCheck")
	for _, c := range e.CallSitesOf(o, false) {
		p := short(pkgOf(c.Parent()))
		r.Check(p == "internal/authz", fmt.Sprintf("%s | ContextWithSkipAuthzCheck", fname(topLevel(c.Parent()))), e.instrPos(c),
			"inside internal/authz", "the authorisation-skip flag is set outside the authoriser; any handler reached with this context bypasses access control")
	}
}

// ruleListStoresFilter: a non-skipped ListStores never reaches the datastore with an empty authorised set.
func ruleListStoresFilter(e *Engine, r *Reporter) {
	r.Rule("authz-filter-flow", "ListStores: the authorised store ids reach ListStoresQuery.Execute, and the query is not reached when the authorised set is non-nil and empty (all backends treat an empty id list as 'no filter')", 1)
	fn := e.Func("pkg/server", "Server.ListStores")
	gas := e.Func("pkg/server", "Server.getAccessibleStores")
	var exec ssa.CallInstruction
	var ids ssa.Value
	eachInstr(fn, false, func(in ssa.Instruction) {
		c, ok := in.(ssa.CallInstruction)
		if !ok {
			return
		}
		if g := staticCallee(c); g != nil && g.Name() == "Execute" && strings.HasSuffix(short(pkgOf(g)), "pkg/server/commands") {
			exec = c
			ids = c.Common().Args[len(c.Common().Args)-1]
		}
	})
	if exec == nil {
		blind("authz-filter-flow: ListStoresQuery.Execute call not found")
	}
	flows := derivesFrom(ids, func(v ssa.Value) bool {
		c, ok := v.(*ssa.Call)
		return ok && staticCallee(c) == gas
	})
	// guard: on every path to Execute either ids == nil or len(ids) != 0, where ids is result #0
	// of getAccessibleStores (value identity, not text)
	isIDs := func(v ssa.Value) bool {
		return derivesFrom(v, func(x ssa.Value) bool {
			ex, ok := x.(*ssa.Extract)
			if !ok || ex.Index != 0 {
				return false
			}
			c, ok := ex.Tuple.(*ssa.Call)
			return ok && staticCallee(c) == gas
		})
	}
	guard := cutSpec{edge: func(f Fact) bool {
		switch f.Kind {
		case "nil":
			return f.Positive && isIDs(f.X) // ids == nil
		case "eq", ">":
			c, ok := f.X.(*ssa.Call)
			if !ok {
				return false
			}
			b, ok := c.Call.Value.(*ssa.Builtin)
			if !ok || b.Name() != "len" || !isIDs(c.Call.Args[0]) {
				return false
			}
			n, ok := constInt(f.Y)
			if !ok || n != 0 {
				return false
			}
			if f.Kind == "eq" {
				return !f.Positive // len(ids) != 0
			}
			return f.Positive // len(ids) > 0
		}
		return false
	}}
	g, _ := mustPass(fn, exec, guard)
	r.Check(flows && g, "pkg/server.(*Server).ListStores", e.instrPos(exec), "ids flow from getAccessibleStores and the empty-but-enforced case returns before the query",
		"ListStoresQuery.Execute can be reached with a non-nil empty authorised set, which every backend treats as 'no filter' (caller would see every store)")
}

package main

// C21: ordering obligations of the pipeline's cycle teardown (structure only).

import (
	"fmt"
	"strings"

	"golang.org/x/tools/go/ssa"
)

const workerPkg = "internal/listobjects/pipeline/internal/worker"
const trackPkg = "internal/listobjects/pipeline/internal/track"

func isCallNamed(in ssa.Instruction, names ...string) bool {
	c, ok := in.(ssa.CallInstruction)
	if !ok {
		return false
	}
	o := calleeObj(c)
	if o == nil {
		// dynamic call of a func-typed field: use the field name
		if u, ok := c.Common().Value.(*ssa.UnOp); ok {
			if fa, ok := u.X.(*ssa.FieldAddr); ok {
				n := fieldName(fa.X.Type(), fa.Field)
				for _, w := range names {
					if n == w {
						return true
					}
				}
			}
		}
		return false
	}
	for _, w := range names {
		if o.Name() == w {
			return true
		}
	}
	return false
}

func rulePipelineOrdering(e *Engine, r *Reporter) {
	r.Rule("message-accounting", "every message is accounted for: Core.send runs MsgFunc (the in-flight increment on cyclical edges) before listener.Send and calls msg.Done() when Send fails; ProcessSender's workers call msg.Done() after each message and in a deferred function when processing panics; a message received but not handed to a worker is Done() on the cancellation path", 3)
	send := e.Func(workerPkg, "Core.send")
	var lsend ssa.Instruction
	eachInstr(send, false, func(in ssa.Instruction) {
		if c, ok := in.(ssa.CallInstruction); ok && c.Common().IsInvoke() && c.Common().Method.Name() == "Send" {
			lsend = in
		}
	})
	if lsend == nil {
		blind("message-accounting: listener.Send not found in Core.send")
	}
	// MsgFunc before Send (or MsgFunc nil)
	g, _ := mustPass(send, lsend, cutSpec{
		instr: func(in ssa.Instruction) bool { return isCallNamed(in, "MsgFunc") },
		edge: func(f Fact) bool {
			return f.Kind == "nil" && f.Positive && strings.HasSuffix(describe_(f.X), ".MsgFunc")
		},
	})
	r.Check(g, fname(send)+" | MsgFunc precedes Send", e.instrPos(lsend), "increment-before-enqueue", "a message can be enqueued before MsgFunc ran: on a cyclical edge the consumer's Done() can then drop the in-flight count to zero before it was incremented (premature quiescence)")
	// failed Send => Done
	okFail := false
	for _, b := range send.Blocks {
		for si := range b.Succs {
			for _, f := range edgeFacts(b, si) {
				if f.Kind == "call" && !f.Positive && f.Call != nil && f.Call.Common().IsInvoke() && f.Call.Common().Method.Name() == "Send" {
					// every path from this edge passes msg.Done() before the next Send / the return
					succ := b.Succs[si]
					hit := false
					for _, in := range succ.Instrs {
						if isCallNamed(in, "Done") {
							hit = true
						}
					}
					okFail = hit
				}
			}
		}
	}
	r.Check(okFail, fname(send)+" | failed Send releases the message", e.instrPos(lsend), "msg.Done() on the failure branch", "a message whose Send failed is not released: its in-flight increment is never undone and the cycle group never becomes quiescent")

	ps := e.Func(workerPkg, "Core.ProcessSender")
	// worker closures: those that range over the input channel
	nWorkers := 0
	// the per-processor worker: a closure of ProcessSender, or a same-package function it starts (closure moved into a method)
	workers := append([]*ssa.Function{}, ps.AnonFuncs...)
	for _, g := range sameePackageRegion(ps, 1) {
		if g != ps {
			workers = append(workers, g)
			workers = append(workers, g.AnonFuncs...)
		}
	}
	for _, cl := range workers {
		var recv ssa.Instruction
		eachInstr(cl, false, func(in ssa.Instruction) {
			if u, ok := in.(*ssa.UnOp); ok && u.Op.String() == "<-" {
				recv = in
			}
		})
		if recv == nil {
			continue
		}
		nWorkers++
		// (a) from the receive back to the receive, msg.Done() is passed
		again, _ := reachable(cl, recv, func(in ssa.Instruction) bool { return in == recv }, cutSpec{instr: func(in ssa.Instruction) bool { return isCallNamed(in, "Done") }})
		r.Check(!again, fname(cl)+" | Done after every processed message", e.instrPos(recv), "msg.Done() on every loop iteration", "a worker can take the next message without having called Done() on the previous one")
		// (b) a deferred function releases the message held when processing panics
		deferDone := false
		eachInstr(cl, false, func(in ssa.Instruction) {
			d, ok := in.(*ssa.Defer)
			if !ok {
				return
			}
			if mc, ok := d.Call.Value.(*ssa.MakeClosure); ok {
				if f, ok := mc.Fn.(*ssa.Function); ok {
					eachInstr(f, true, func(x ssa.Instruction) {
						if isCallNamed(x, "Done") {
							deferDone = true
						}
					})
				}
			}
		})
		r.Check(deferDone, fname(cl)+" | deferred Done for the message in hand", e.pos(cl.Pos()), "a panic while processing still releases the message", "no deferred msg.Done(): when ProcessMessage panics on a message from a cyclical edge its in-flight count is never released and the cycle group never tears down (the request hangs)")
	}
	if nWorkers == 0 {
		blind("message-accounting: no worker closure found in ProcessSender")
	}
	// (c) dispatcher loop: a received message is either handed over or Done
	var srecv ssa.Instruction
	eachInstr(ps, false, func(in ssa.Instruction) {
		if c, ok := in.(ssa.CallInstruction); ok && c.Common().IsInvoke() && c.Common().Method.Name() == "Recv" {
			srecv = in
		}
	})
	if srecv == nil {
		blind("message-accounting: sender.Recv not found in ProcessSender")
	}
	leak := false
	for _, rs := range returnSites(ps) {
		reach, _ := reachable(ps, srecv, func(in ssa.Instruction) bool { return in == rs.At }, cutSpec{
			instr: func(in ssa.Instruction) bool {
				if isCallNamed(in, "Done") {
					return true
				}
				if _, ok := in.(*ssa.Select); ok {
					return false
				}
				return false
			},
			edge: func(f Fact) bool {
				// Recv returned !ok: nothing to release
				return f.Kind == "bool" && !f.Positive && strings.Contains(describe_(f.X), ".Recv(")
			},
		})
		if reach {
			// paths through the select's send case hand the message over: accept when the only
			// way is via the select state "sent"
			reach2, _ := reachable(ps, srecv, func(in ssa.Instruction) bool { return in == rs.At }, cutSpec{
				instr: func(in ssa.Instruction) bool { return isCallNamed(in, "Done") },
				edge: func(f Fact) bool {
					if f.Kind == "bool" && !f.Positive && strings.Contains(describe_(f.X), ".Recv(") {
						return true
					}
					// select index == 0 (the send case) taken
					if f.Kind == "eq" && f.Positive {
						if n, ok := constInt(f.Y); ok && n == 0 && strings.Contains(describe_(f.X), "Select") {
							return true
						}
					}
					return false
				},
			})
			if reach2 {
				leak = true
			}
		}
	}
	r.Check(!leak, fname(ps)+" | received message is handed over or released", e.instrPos(srecv), "no path drops a received message", "a message received from the sender can be dropped (neither given to a worker nor Done()) when the context is cancelled")

	r.Rule("teardown-ordering", "Basic.Execute signals ready only after all standard senders are exhausted, waits for group quiescence and for its predecessor under context.Background() (cancellation must not start the teardown early), closes its listeners after quiescence and always wakes the next member", 5)
	ex := e.Func(workerPkg, "Basic.Execute")
	var sig, waitAll, sleep ssa.Instruction
	var wakes, cleanups []ssa.Instruction
	eachInstr(ex, false, func(in ssa.Instruction) {
		switch {
		case isCallNamed(in, "SignalReady"):
			sig = in
		case isCallNamed(in, "WaitForAllReady"):
			waitAll = in
		case isCallNamed(in, "Sleep"):
			sleep = in
		case isCallNamed(in, "Wake"):
			wakes = append(wakes, in)
		case isCallNamed(in, "Cleanup"):
			if _, isDefer := in.(*ssa.Defer); !isDefer {
				cleanups = append(cleanups, in)
			}
		}
	})
	if sig == nil || waitAll == nil || sleep == nil || len(wakes) == 0 {
		blind("teardown-ordering: SignalReady/WaitForAllReady/Sleep/Wake not all found in Basic.Execute")
	}
	g1, _ := mustPass(ex, sig, cutSpec{instr: func(in ssa.Instruction) bool {
		c, ok := in.(ssa.CallInstruction)
		if !ok {
			return false
		}
		f := c.Common().StaticCallee()
		return f != nil && f.Name() == "Wait" && typeBaseName(f.Signature.Recv().Type()) == "WaitGroup" && strings.Contains(describe_(c.Common().Args[0]), "WaitGroup")
	}})
	r.Check(g1, fname(ex)+" | SignalReady after the standard senders are done", e.instrPos(sig), "wgStandard.Wait() precedes SignalReady", "a member can report ready while a non-cyclical input is still producing: the group may be torn down before all inputs are exhausted")
	bg := func(in ssa.Instruction) bool {
		c := in.(ssa.CallInstruction)
		a := c.Common().Args
		return describe_(a[len(a)-1]) == "context.Background()"
	}
	r.Check(bg(waitAll), fname(ex)+" | WaitForAllReady under context.Background()", e.instrPos(waitAll), "not cancellable by the request", "WaitForAllReady runs under a request context: after a cancel the leader starts the teardown although members are not ready / cyclic messages are in flight (send on closed channel)")
	r.Check(bg(sleep), fname(ex)+" | Sleep under context.Background()", e.instrPos(sleep), "not cancellable by the request", "Sleep runs under a request context: a cancelled member closes its listeners before its predecessor finished")
	// every Cleanup in the membership branch follows WaitForAllReady; every Wake follows a Cleanup
	okOrder := true
	for _, c := range cleanups {
		if gq, _ := mustPass(ex, c, cutSpec{instr: func(in ssa.Instruction) bool { return in == waitAll }}); !gq {
			okOrder = false
		}
	}
	for _, w := range wakes {
		if gq, _ := mustPass(ex, w, cutSpec{instr: func(in ssa.Instruction) bool { return isCallNamed(in, "Cleanup") && !isDeferInstr(in) }}); !gq {
			okOrder = false
		}
	}
	r.Check(okOrder && len(cleanups) >= 1 && len(wakes) >= 1, fname(ex)+" | quiescence -> Cleanup -> Wake", e.instrPos(waitAll), "listeners closed after quiescence, successor woken after the close", "the teardown order is broken (listeners closed before quiescence, or the successor woken before this member closed its listeners)")
	// every exit after WaitForAllReady passes a Wake
	missWake := false
	for _, rs := range returnSites(ex) {
		reach, _ := reachable(ex, waitAll, func(in ssa.Instruction) bool { return in == rs.At }, cutSpec{instr: func(in ssa.Instruction) bool { return isCallNamed(in, "Wake") }})
		if reach {
			missWake = true
		}
	}
	r.Check(!missWake, fname(ex)+" | every exit of the membership branch wakes the next member", e.instrPos(waitAll), "wake chain cannot be interrupted", "a member can leave the teardown without waking its successor: the chain stalls and the pipeline never terminates")

	r.Rule("one-shot-latches", "the ready / quiescence / wake latches are closed behind a one-shot guard (mutex + state flip, or atomic Swap), and SignalReady decrements the count Join/Register started with", 3)
	for _, spec := range []struct{ pkg, fn, guard string }{
		{workerPkg, "Membership.Wake", "Swap"},
		{trackPkg, "StatusPool.dec", "Swap"},
		{trackPkg, "StatusPool.set", "Lock"},
	} {
		fn := e.Func(spec.pkg, spec.fn)
		n, ok := 0, true
		eachInstr(fn, false, func(in ssa.Instruction) {
			c, isCall := in.(*ssa.Call)
			if !isCall {
				return
			}
			b, isB := c.Call.Value.(*ssa.Builtin)
			if !isB || b.Name() != "close" {
				return
			}
			n++
			switch spec.guard {
			case "Swap":
				g, _ := mustPass(fn, in, cutSpec{edge: func(f Fact) bool {
					return f.Kind == "call" && !f.Positive && f.Call != nil && calleeObj(f.Call) != nil && calleeObj(f.Call).Name() == "Swap"
				}})
				if !g {
					ok = false
				}
			case "Lock":
				g, _ := mustPass(fn, in, cutSpec{instr: func(x ssa.Instruction) bool { return isCallNamed(x, "Lock") }})
				// and behind the state flip: pool[index] was true and is set false
				g2, _ := mustPass(fn, in, cutSpec{edge: func(f Fact) bool { return f.Kind == "bool" && f.Positive && strings.Contains(describe_(f.X), ".pool[") }})
				if !g || !g2 {
					ok = false
				}
			}
		})
		r.Check(ok && n > 0, fname(fn)+" | close is one-shot", e.pos(fn.Pos()), fmt.Sprintf("%d close() behind %s", n, spec.guard), "a latch channel can be closed twice (panic) or closed without the one-shot guard")
	}
	sr := e.Func(workerPkg, "Membership.SignalReady")
	rep, dec := false, false
	eachInstr(sr, false, func(in ssa.Instruction) {
		if isCallNamed(in, "Report") {
			rep = true
		}
		if isCallNamed(in, "Dec") {
			dec = true
		}
	})
	r.Check(rep && dec, fname(sr)+" | reports and releases the member's initial count", e.pos(sr.Pos()), "Report + Dec", "SignalReady no longer both marks the member ready and releases the in-flight unit it joined with")
}

func isDeferInstr(in ssa.Instruction) bool { _, ok := in.(*ssa.Defer); return ok }

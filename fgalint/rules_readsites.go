package main

// C01.2 / C06 / C30: every stored tuple read by the engines is filtered against the model (and its
// condition) before it is used.

import (
	"fmt"
	"go/types"
	"sort"
	"strings"

	"golang.org/x/tools/go/ssa"
)

var readerMethods = map[string]bool{"Read": true, "ReadUserTuple": true, "ReadUsersetTuples": true, "ReadStartingWithUser": true}

// forwardCallees: names of functions the value flows into as an argument, transitively through
// the results of those calls, phis, extracts, stores into locals and closure captures.
func (e *Engine) forwardCallees(start ssa.Value) map[string]bool {
	out, _ := e.forwardCalls(start)
	return out
}

// forwardCalls additionally returns the call instructions the value flows into, by callee name.
func (e *Engine) forwardCalls(start ssa.Value) (map[string]bool, map[string][]ssa.CallInstruction) {
	out := map[string]bool{}
	calls := map[string][]ssa.CallInstruction{}
	// context-sensitive: a value that entered a callee through call site cs leaves it only back to cs; a value that
	// leaves the function the flow started in (empty stack) continues at every call site of that function
	type item struct {
		v     ssa.Value
		stack string // call-site ids entered, "/"-joined
	}
	type ctx struct {
		stack []ssa.CallInstruction
		hops  int
	}
	seen := map[item]bool{}
	ctxOf := map[item]ctx{}
	var work []item
	var cur ctx
	stackID := func(st []ssa.CallInstruction) string {
		id := ""
		for _, c := range st {
			id += fmt.Sprintf("%p/", c)
		}
		return id
	}
	pushCtx := func(v ssa.Value, c ctx) {
		if v == nil {
			return
		}
		it := item{v, stackID(c.stack)}
		if !seen[it] {
			seen[it] = true
			ctxOf[it] = c
			work = append(work, it)
		}
	}
	push := func(v ssa.Value) { pushCtx(v, cur) }
	enter := func(param ssa.Value, cs ssa.CallInstruction) {
		if cur.hops >= 3 {
			return
		}
		st := append(append([]ssa.CallInstruction{}, cur.stack...), cs)
		pushCtx(param, ctx{st, cur.hops + 1})
	}
	push(start)
	for len(work) > 0 {
		it := work[len(work)-1]
		work = work[:len(work)-1]
		v := it.v
		cur = ctxOf[it]
		refs := v.Referrers()
		if refs == nil {
			continue
		}
		for _, ref := range *refs {
			switch x := ref.(type) {
			case *ssa.Extract:
				push(x)
			case *ssa.Phi:
				push(x)
			case *ssa.MakeInterface:
				push(x)
			case *ssa.ChangeInterface:
				push(x)
			case *ssa.ChangeType:
				push(x)
			case *ssa.TypeAssert:
				push(x)
			case *ssa.Store:
				if x.Val == v {
					push(x.Addr)
					// loads of that address
					if x.Addr.Referrers() != nil {
						for _, r2 := range *x.Addr.Referrers() {
							if u, ok := r2.(*ssa.UnOp); ok {
								push(u)
							}
						}
					}
					if fa, ok := x.Addr.(*ssa.FieldAddr); ok {
						push(fa.X)
					}
					if ia, ok := x.Addr.(*ssa.IndexAddr); ok {
						push(ia.X)
					}
				}
			case *ssa.UnOp:
				push(x)
			case *ssa.Slice:
				push(x)
			case *ssa.IndexAddr:
				if x.X == v {
					push(x) // an element of the slice
				}
			case *ssa.Index:
				if x.X == v {
					push(x)
				}
			case *ssa.MakeClosure:
				if f, ok := x.Fn.(*ssa.Function); ok {
					for i, b := range x.Bindings {
						if b == v && i < len(f.FreeVars) {
							push(f.FreeVars[i])
						}
					}
				}
			case *ssa.Send:
				out["<send>"] = true
			case *ssa.Return:
				out["<return>"] = true
				// the value continues at the call site it came in through, or — when it leaves the function the flow
				// started in — at every call site of that function (same result position)
				idx := -1
				for i, rv := range x.Results {
					if rv == v {
						idx = i
					}
				}
				rf := x.Parent()
				if idx < 0 || rf == nil || !inModule(pkgOf(rf)) {
					break
				}
				var sites []ssa.CallInstruction
				next := cur
				if n := len(cur.stack); n > 0 {
					sites = []ssa.CallInstruction{cur.stack[n-1]}
					next = ctx{cur.stack[:n-1], cur.hops}
				} else if cur.hops < 3 {
					sites = e.allCallSites(rf)
					next = ctx{nil, cur.hops + 1}
				}
				for _, cs := range sites {
					cv, ok := cs.(ssa.Value)
					if !ok {
						continue
					}
					if len(x.Results) == 1 {
						pushCtx(cv, next)
						continue
					}
					if cv.Referrers() != nil {
						for _, r3 := range *cv.Referrers() {
							if ex, ok := r3.(*ssa.Extract); ok && ex.Index == idx {
								pushCtx(ex, next)
							}
						}
					}
				}
			case ssa.CallInstruction:
				name := "?"
				if o := calleeObj(x); o != nil {
					name = o.Name()
					if o.Pkg() != nil {
						name = o.Pkg().Name() + "." + name
					}
				}
				out[name] = true
				calls[name] = append(calls[name], x)
				// a closure called directly, or handed to a slices/maps higher-order helper together with the value:
				// the flow continues at the closure's parameter
				{
					args := x.Common().Args
					closureOf := func(v ssa.Value) *ssa.Function {
						if mc, ok := unwrap(v).(*ssa.MakeClosure); ok {
							f, _ := mc.Fn.(*ssa.Function)
							return f
						}
						if f, ok := unwrap(v).(*ssa.Function); ok {
							return f
						}
						return nil
					}
					if cf := closureOf(x.Common().Value); cf != nil && !x.Common().IsInvoke() {
						for i, a := range args {
							if a == v && i < len(cf.Params) {
								enter(cf.Params[i], x)
							}
						}
					}
					if g := staticCallee(x); g != nil && canon(g).Pkg != nil {
						switch canon(g).Pkg.Pkg.Path() {
						case "slices", "maps":
							if len(args) >= 2 && args[0] == v {
								if cf := closureOf(args[1]); cf != nil && len(cf.Params) >= 1 {
									enter(cf.Params[len(cf.Params)-1], x)
								}
							}
						}
					}
				}
				// into a module function with a body: the flow continues at the matching parameter
				if g := staticCallee(x); g != nil && len(g.Blocks) > 0 && inModule(pkgOf(g)) {
					for i, a := range x.Common().Args {
						if a == v && i < len(g.Params) {
							enter(g.Params[i], x)
						}
					}
				}
				if val, ok := x.(ssa.Value); ok {
					// result continues the flow when it is iterator-like or a wrapper
					push(val)
				}
				// builtin append: flow into the slice
			}
		}
	}
	return out, calls
}

func sortedKeys(m map[string]bool) []string {
	var out []string
	for k := range m {
		out = append(out, k)
	}
	sort.Strings(out)
	return out
}

type readSite struct {
	call ssa.CallInstruction
	fn   *ssa.Function
	top  *ssa.Function
	meth string
}

func (e *Engine) engineReadSites(pkgPrefixes []string) []readSite {
	rtr := e.Named("pkg/storage", "RelationshipTupleReader").Underlying().(*types.Interface)
	var out []readSite
	for _, fn := range e.Fns {
		p := short(pkgOf(fn))
		ok := false
		for _, pre := range pkgPrefixes {
			if p == pre || strings.HasPrefix(p, pre+"/") {
				ok = true
			}
		}
		if !ok || isTestSupport(pkgOf(fn)) {
			continue
		}
		for _, b := range fn.Blocks {
			for _, in := range b.Instrs {
				c, isCall := in.(ssa.CallInstruction)
				if !isCall || !c.Common().IsInvoke() || !readerMethods[c.Common().Method.Name()] {
					continue
				}
				it, isI := c.Common().Value.Type().Underlying().(*types.Interface)
				if !isI || !hasMethod(it, c.Common().Method.Name(), rtr) {
					continue
				}
				out = append(out, readSite{c, fn, topLevel(fn), c.Common().Method.Name()})
			}
		}
	}
	return out
}


// engineKind classifies a read site's package.
func engineKind(pkg string) string {
	switch {
	case pkg == "internal/graph" || pkg == "internal/checkutil" || pkg == "pkg/server/commands/listusers" || pkg == "pkg/server/commands/reverseexpand":
		return "v1"
	case pkg == "pkg/server/commands":
		return "expand"
	case strings.HasPrefix(pkg, "internal/listobjects/pipeline"):
		return "pipeline"
	case pkg == "internal/check":
		return "v2"
	}
	return ""
}

func ruleReadSitesFiltered(e *Engine, r *Reporter, kinds map[string]bool, floor int) {
	r.Rule("read-sites-filtered", "every iterator / tuple obtained from a RelationshipTupleReader by a query engine passes the model filter (FilterInvalidTuples / ValidateTupleForRead) and, except in Expand, a condition evaluation before its elements are used", floor)
	for _, s := range e.engineReadSites([]string{"internal/graph", "internal/checkutil", "internal/check", "internal/listobjects", "pkg/server/commands"}) {
		kind := engineKind(short(pkgOf(s.fn)))
		if kind == "" || !kinds[kind] {
			continue
		}
		v, _ := s.call.(ssa.Value)
		fc, fcalls := e.forwardCalls(v)
		key := fmt.Sprintf("%s | %s #%d", fname(s.top), s.meth, ordinalIn(s.top, s.call))
		model := fc["storage.NewFilteredTupleKeyIterator"] || fc["validation.ValidateTupleForRead"]
		cond := fc["storage.NewConditionsFilteredTupleKeyIterator"] || fc["eval.EvaluateTupleCondition"]
		// the filter handed to NewFilteredTupleKeyIterator must be FilterInvalidTuples
		if fc["storage.NewFilteredTupleKeyIterator"] {
			okF := false
			for _, c := range fcalls["storage.NewFilteredTupleKeyIterator"] {
				if len(c.Common().Args) >= 2 && strings.Contains(describe_(c.Common().Args[1]), "FilterInvalidTuples(") {
					okF = true
				}
			}
			model = model && okF
		}
		switch kind {
		case "v1":
			if s.meth == "ReadUserTuple" {
				// handled by direct-tuple-guards; here: the validator is consulted
				r.Check(model, key, e.instrPos(s.call), "tuple validated against the model", "a tuple read directly from the store is used without ValidateTupleForRead: a tuple left over from another model can grant access")
				continue
			}
			r.Check(model && cond, key, e.instrPos(s.call), "model filter and condition evaluation applied", fmt.Sprintf("stored tuples reach the engine without %s (flows into: %s)", missingWhat(model, cond), strings.Join(sortedKeys(fc), " ")))
		case "expand":
			r.Check(model, key, e.instrPos(s.call), "model filter applied (Expand does not evaluate conditions)", "stored tuples reach the Expand tree without FilterInvalidTuples")
		case "v2":
			own := fc["check.buildIterator"] || fc["check.evaluateCondition"] || fc["iterator.NewFilteredIterator"]
			r.Check(own, key, e.instrPos(s.call), "passes the engine's own iterator builder / condition evaluation", "the weighted-graph engine uses a read result without buildIterator/evaluateCondition (no contextual merge, no condition handling)")
		case "pipeline":
			// the result must go through applyValidator in every caller of createIterator
			okAll := true
			n := 0
			for _, cs := range e.callers[canon(s.top)] {
				n++
				cv, _ := cs.(ssa.Value)
				if !e.forwardCallees(cv)["pipeline.applyValidator"] {
					okAll = false
				}
			}
			r.Check(okAll && n > 0, key, e.instrPos(s.call), "every caller wraps the iterator with applyValidator", "a caller of createIterator consumes the raw datastore iterator without the validator")
		}
	}
	if kinds["pipeline"] {
		// the production validator combines both filters, and every store is built with it
		nv := e.Func("internal/listobjects/pipeline", "NewValidator")
		hasModel, hasCond := false, false
		eachInstr(nv, true, func(in ssa.Instruction) {
			if c, ok := in.(ssa.CallInstruction); ok {
				if o := calleeObj(c); o != nil {
					if o.Name() == "FilterInvalidTuples" {
						hasModel = true
					}
					if o.Name() == "BuildTupleKeyConditionFilter" {
						hasCond = true
					}
				}
			}
		})
		r.Check(hasModel && hasCond, "pipeline.NewValidator combines model and condition filters", e.pos(nv.Pos()), "FilterInvalidTuples + BuildTupleKeyConditionFilter", "the pipeline validator no longer applies both the model filter and the condition filter")
		nvs := e.FuncObj("internal/listobjects/pipeline", "NewValidatingStore")
		for _, cs := range e.CallSitesOf(nvs, false) {
			d := ""
			for _, a := range cs.Common().Args {
				d += describe_(a) + " "
			}
			ok := strings.Contains(d, "WithStoreValidator(pipeline.NewValidator(") || strings.Contains(d, "WithStoreValidator(")
			top := topLevel(cs.Parent())
			r.Check(ok, fmt.Sprintf("%s | NewValidatingStore #%d", fname(top), ordinalIn(top, cs)), e.instrPos(cs), "store built with a validator", "a pipeline store is built without WithStoreValidator: invalid and condition-failing tuples flow into ListObjects results")
		}
	}
}

func missingWhat(model, cond bool) string {
	switch {
	case !model && !cond:
		return "the model filter and the condition evaluation"
	case !model:
		return "the model filter (FilterInvalidTuples)"
	default:
		return "a condition evaluation"
	}
}

// ruleDirectTupleGuards: checkDirectUserTuple sets Allowed only behind validation and a met condition.
func ruleDirectTupleGuards(e *Engine, r *Reporter) {
	r.Rule("direct-tuple-guards", "checkDirectUserTuple sets Allowed=true only after ValidateTupleForRead returned nil and the condition filter built by BuildTupleKeyConditionFilter returned (true, nil)", 1)
	fn := e.Func("internal/graph", "LocalChecker.checkDirectUserTuple")
	n := 0
	for _, g := range withClosures(fn) {
		for _, b := range g.Blocks {
			for _, in := range b.Instrs {
				st, ok := in.(*ssa.Store)
				if !ok {
					continue
				}
				fa, ok := st.Addr.(*ssa.FieldAddr)
				if !ok || fieldName(fa.X.Type(), fa.Field) != "Allowed" {
					continue
				}
				if bv, isC := constBool(st.Val); !isC || !bv {
					continue
				}
				n++
				g1, _ := mustPass(g, in, cutSpec{edge: func(f Fact) bool {
					return f.Kind == "nil" && f.Positive && strings.Contains(describe_(f.X), "ValidateTupleForRead(")
				}})
				g2, _ := mustPass(g, in, cutSpec{edge: func(f Fact) bool {
					return f.Kind == "bool" && f.Positive && strings.Contains(describe_(f.X), "BuildTupleKeyConditionFilter(")
				}})
				g3, _ := mustPass(g, in, cutSpec{edge: func(f Fact) bool {
					return f.Kind == "nil" && f.Positive && strings.Contains(describe_(f.X), "BuildTupleKeyConditionFilter(")
				}})
				r.Check(g1 && g2 && g3, fname(fn)+" | Allowed=true", e.instrPos(in), "behind validation and a met condition", fmt.Sprintf("Allowed is set to true without all guards (valid for model: %v, condition met: %v, condition error checked: %v)", g1, g2, g3))
			}
		}
	}
	if n == 0 {
		r.Bad(fname(fn)+" | Allowed=true", e.pos(fn.Pos()), "no store of Allowed=true found (rule cannot locate the decision)")
	}
}

// ruleConditionErrorsUsed: callers of the condition evaluators consume the error.
func ruleConditionErrorsUsed(e *Engine, r *Reporter, pkgs []string) {
	r.Rule("condition-error-consumed", "every call of eval.EvaluateTupleCondition / check.evaluateCondition in the engines consumes the error result (an unevaluable condition is never silently treated as a decision)", 4)
	for _, fn := range e.Fns {
		p := short(pkgOf(fn))
		in := false
		for _, x := range pkgs {
			if p == x || strings.HasPrefix(p, x+"/") {
				in = true
			}
		}
		if !in || isTestSupport(pkgOf(fn)) {
			continue
		}
		for _, b := range fn.Blocks {
			for _, ins := range b.Instrs {
				c, ok := ins.(*ssa.Call)
				if !ok {
					continue
				}
				o := calleeObj(c)
				if o == nil || (o.Name() != "EvaluateTupleCondition" && o.Name() != "evaluateCondition") {
					continue
				}
				top := topLevel(fn)
				r.Check(errorResultUsed(c), fmt.Sprintf("%s | %s #%d", fname(top), o.Name(), ordinalIn(top, c)), e.instrPos(c), "error consumed", "the error of the condition evaluation is discarded: a tuple whose condition cannot be evaluated is handled by the boolean alone")
			}
		}
	}
}

func inModule(pkgPath string) bool {
	return pkgPath == modPath || strings.HasPrefix(pkgPath, modPath+"/")
}

package main

// A5: GUARDED_BY lockset analysis (C22, C23, C12/C16 memory backend).

import (
	"fmt"
	"go/ast"
	"go/types"
	"regexp"
	"sort"
	"strings"

	"golang.org/x/tools/go/ssa"
)

type guardSpec struct {
	typ    *types.Named
	field  string
	mutex  string
	source string // "annotation" or "table"
}

var guardedRe = regexp.MustCompile(`GUARDED_BY\((\w+)\)`)

// extraGuards: discipline documented in prose in the repository (frozen, with the quoted reason).
var extraGuards = []struct{ pkg, typ, field, mutex, why string }{
	{"internal/containers/mpmc", "Queue", "data", "mu", "queue.go: 'write lock: extend, Grow, Close; read lock: Send, Recv'"},
	{"internal/containers/mpmc", "Queue", "capacity", "mu", "same"},
	{"internal/containers/mpmc", "Queue", "extended", "mu", "same"},
}

func (e *Engine) guardSpecs() []guardSpec {
	var out []guardSpec
	for _, p := range e.modulePackages(false) {
		for _, f := range p.Syntax {
			ast.Inspect(f, func(n ast.Node) bool {
				ts, ok := n.(*ast.TypeSpec)
				if !ok {
					return true
				}
				st, ok := ts.Type.(*ast.StructType)
				if !ok {
					return true
				}
				obj, _ := p.TypesInfo.Defs[ts.Name].(*types.TypeName)
				if obj == nil {
					return true
				}
				named, _ := obj.Type().(*types.Named)
				if named == nil {
					return true
				}
				for _, fld := range st.Fields.List {
					text := ""
					if fld.Comment != nil {
						text += fld.Comment.Text()
					}
					if fld.Doc != nil {
						text += fld.Doc.Text()
					}
					m := guardedRe.FindStringSubmatch(text)
					if m == nil {
						continue
					}
					for _, nm := range fld.Names {
						out = append(out, guardSpec{named, nm.Name, m[1], "annotation"})
					}
				}
				return true
			})
		}
	}
	for _, x := range extraGuards {
		if !e.HasPkg(x.pkg) {
			continue
		}
		if o := e.Pkg(x.pkg).Types.Scope().Lookup(x.typ); o != nil {
			if n, ok := o.Type().(*types.Named); ok {
				out = append(out, guardSpec{n, x.field, x.mutex, "table"})
			}
		}
	}
	return out
}

type lockState map[string]int // mutex field -> 0 none, 1 shared, 2 exclusive

func copyState(s lockState) lockState {
	o := lockState{}
	for k, v := range s {
		o[k] = v
	}
	return o
}

func meetState(a, b lockState) lockState {
	o := lockState{}
	for k, v := range a {
		if w, ok := b[k]; ok {
			if w < v {
				v = w
			}
			if v > 0 {
				o[k] = v
			}
		}
	}
	return o
}

func equalState(a, b lockState) bool {
	if len(a) != len(b) {
		return false
	}
	for k, v := range a {
		if b[k] != v {
			return false
		}
	}
	return true
}

// mutexOp: is the call Lock/RLock/Unlock/RUnlock on field `recv.<name>` of the receiver?
func mutexOp(c ssa.CallInstruction, recv ssa.Value) (string, string, bool) {
	f := c.Common().StaticCallee()
	if f == nil || f.Signature.Recv() == nil || len(c.Common().Args) == 0 {
		return "", "", false
	}
	tn := typeBaseName(f.Signature.Recv().Type())
	if tn != "Mutex" && tn != "RWMutex" {
		return "", "", false
	}
	switch f.Name() {
	case "Lock", "RLock", "Unlock", "RUnlock":
	default:
		return "", "", false
	}
	a0 := c.Common().Args[0]
	if u, ok := a0.(*ssa.UnOp); ok { // the mutex field is a pointer: load of the field
		a0 = u.X
	}
	fa, ok := a0.(*ssa.FieldAddr)
	if !ok {
		return "", "", false
	}
	base := fa.X
	if u, ok := base.(*ssa.UnOp); ok {
		base = u.X
	}
	if !sameReceiver(base, recv) {
		return "", "", false
	}
	return fieldName(fa.X.Type(), fa.Field), f.Name(), true
}

func sameReceiver(v, recv ssa.Value) bool {
	if v == recv {
		return true
	}
	// receiver captured by a closure
	if fv, ok := v.(*ssa.FreeVar); ok {
		if p, ok := recv.(*ssa.Parameter); ok && fv.Name() == p.Name() {
			return true
		}
	}
	return false
}

// locksetAt computes the must-lockset before every instruction of fn for mutex fields of recv.
func locksetAt(fn *ssa.Function, recv ssa.Value, entry lockState) map[ssa.Instruction]lockState {
	in := map[*ssa.BasicBlock]lockState{}
	out := map[*ssa.BasicBlock]lockState{}
	res := map[ssa.Instruction]lockState{}
	if len(fn.Blocks) == 0 {
		return res
	}
	work := []*ssa.BasicBlock{fn.Blocks[0]}
	in[fn.Blocks[0]] = copyState(entry)
	visited := map[*ssa.BasicBlock]bool{}
	for len(work) > 0 {
		b := work[0]
		work = work[1:]
		st := copyState(in[b])
		for _, ins := range b.Instrs {
			res[ins] = copyState(st)
			c, ok := ins.(ssa.CallInstruction)
			if !ok {
				continue
			}
			if _, isDefer := ins.(*ssa.Defer); isDefer {
				continue // a deferred Unlock releases at exit, not here
			}
			if _, isGo := ins.(*ssa.Go); isGo {
				continue
			}
			mu, op, ok := mutexOp(c, recv)
			if !ok {
				continue
			}
			switch op {
			case "Lock":
				st[mu] = 2
			case "RLock":
				if st[mu] < 1 {
					st[mu] = 1
				}
			case "Unlock", "RUnlock":
				delete(st, mu)
			}
		}
		if old, ok := out[b]; ok && equalState(old, st) && visited[b] {
			continue
		}
		visited[b] = true
		out[b] = st
		for _, s := range b.Succs {
			if cur, ok := in[s]; ok {
				m := meetState(cur, st)
				if !equalState(m, cur) {
					in[s] = m
					work = append(work, s)
				}
			} else {
				in[s] = copyState(st)
				work = append(work, s)
			}
		}
	}
	return res
}

type guardedAccess struct {
	in    ssa.Instruction
	field string
	mutex string
	write bool
}

func isWriteAccess(fa *ssa.FieldAddr) bool {
	if fa.Referrers() == nil {
		return false
	}
	for _, r := range *fa.Referrers() {
		switch x := r.(type) {
		case *ssa.Store:
			if x.Addr == ssa.Value(fa) {
				return true
			}
		case *ssa.IndexAddr:
			for _, r2 := range *x.Referrers() {
				if st, ok := r2.(*ssa.Store); ok && st.Addr == ssa.Value(x) {
					return true
				}
			}
		case *ssa.UnOp:
			// map[...] = v  through MapUpdate on the loaded map
			for _, r2 := range *x.Referrers() {
				if mu, ok := r2.(*ssa.MapUpdate); ok && mu.Map == ssa.Value(x) {
					return true
				}
			}
		}
	}
	return false
}

func ruleLockset(e *Engine, r *Reporter, pkgFilter func(string) bool, ruleID string, floor int) {
	r.Rule(ruleID, "every access to a field documented as guarded by a mutex happens with that mutex held (writes: exclusively), either in the method itself or at every static call site of a helper that relies on its caller's lock", floor)
	specs := e.guardSpecs()
	byType := map[*types.Named][]guardSpec{}
	for _, s := range specs {
		byType[s.typ] = append(byType[s.typ], s)
	}
	var named []*types.Named
	for n := range byType {
		named = append(named, n)
	}
	sort.Slice(named, func(i, j int) bool { return named[i].Obj().Name() < named[j].Obj().Name() })
	for _, n := range named {
		if n.Obj().Pkg() == nil || !pkgFilter(short(n.Obj().Pkg().Path())) {
			continue
		}
		guards := map[string]string{}
		for _, s := range byType[n] {
			guards[s.field] = s.mutex
		}
		// methods of the type (generic origin functions too)
		var methods []*ssa.Function
		for _, fn := range e.Fns {
			if fn.Parent() != nil || fn.Signature.Recv() == nil {
				continue
			}
			rt := derefType(fn.Signature.Recv().Type())
			rn, ok := rt.(*types.Named)
			if !ok || rn.Origin() != n.Origin() {
				continue
			}
			if fn.Origin() != nil {
				continue // analyse the generic body once (instantiations repeat it) — unless there is no origin body
			}
			methods = append(methods, fn)
		}
		if len(methods) == 0 {
			// generic type: only instantiations have bodies
			seen := map[string]bool{}
			for _, fn := range e.Fns {
				if fn.Parent() != nil || fn.Signature.Recv() == nil || fn.Origin() == nil {
					continue
				}
				rt := derefType(fn.Signature.Recv().Type())
				rn, ok := rt.(*types.Named)
				if !ok || rn.Origin() != n.Origin() || seen[fn.Origin().Name()] {
					continue
				}
				seen[fn.Origin().Name()] = true
				methods = append(methods, fn)
			}
		}
		requires := map[*ssa.Function]map[string]int{} // helper -> mutex -> needed mode
		type pending struct {
			fn  *ssa.Function
			acc guardedAccess
		}
		var unheld []pending
		for _, m := range methods {
			for _, fn := range withClosures(m) {
				var recv ssa.Value
				if fn == m {
					recv = m.Params[0]
				} else {
					for _, fv := range fn.FreeVars {
						if fv.Name() == m.Params[0].Name() {
							recv = fv
						}
					}
				}
				if recv == nil {
					continue
				}
				ls := locksetAt(fn, recv, lockState{})
				for _, b := range fn.Blocks {
					for _, ins := range b.Instrs {
						fa, ok := ins.(*ssa.FieldAddr)
						if !ok {
							continue
						}
						base := fa.X
						if !sameReceiver(base, recv) {
							continue
						}
						fname_ := fieldName(fa.X.Type(), fa.Field)
						mu, guarded := guards[fname_]
						if !guarded {
							continue
						}
						need := 1
						w := isWriteAccess(fa)
						if w {
							need = 2
						}
						held := ls[ins][mu]
						acc := guardedAccess{ins, fname_, mu, w}
						key := fmt.Sprintf("%s.%s | %s.%s access #%d", short(n.Obj().Pkg().Path()), n.Obj().Name(), m.Name(), fname_, accessOrdinal(m, fa))
						if held >= need {
							r.OK(key, e.instrPos(ins), fmt.Sprintf("%s held (%s)", mu, modeName(held)))
							continue
						}
						if fn != m {
							// closure: lock may be held by the enclosing method at creation or the closure runs later; report on the closure's own discipline
							// goroutine/deferred closures must lock themselves
							r.Bad(key, e.instrPos(ins), fmt.Sprintf("field %s is accessed in a closure of %s without %s held (%s needed)", fname_, m.Name(), mu, modeName(need)))
							continue
						}
						if requires[m] == nil {
							requires[m] = map[string]int{}
						}
						if requires[m][mu] < need {
							requires[m][mu] = need
						}
						unheld = append(unheld, pending{m, acc})
					}
				}
			}
		}
		// helpers that rely on the caller's lock: check every static call site
		for _, pd := range unheld {
			m := pd.fn
			key := fmt.Sprintf("%s.%s | %s.%s access #%d", short(n.Obj().Pkg().Path()), n.Obj().Name(), m.Name(), pd.acc.field, accessOrdinal(m, pd.acc.in.(*ssa.FieldAddr)))
			sites := e.callers[canon(m)]
			var callSites []ssa.CallInstruction
			for _, cs := range sites {
				if !isTestSupport(pkgOf(cs.Parent())) {
					callSites = append(callSites, cs)
				}
			}
			need := 1
			if pd.acc.write {
				need = 2
			}
			if len(callSites) == 0 || (m.Object() != nil && m.Object().Exported() && !calledOnlyInternally(e, m)) {
				r.Bad(key, e.instrPos(pd.acc.in), fmt.Sprintf("field %s is accessed without %s held (%s needed) in a method that can be called from outside", pd.acc.field, pd.acc.mutex, modeName(need)))
				continue
			}
			ok, where := heldAtCallSites(e, m, pd.acc.mutex, need, 3)
			r.Check(ok, key, e.instrPos(pd.acc.in), fmt.Sprintf("helper: %s held at all %d call sites", pd.acc.mutex, len(callSites)), fmt.Sprintf("field %s is accessed without %s; the method relies on its callers, but %s calls it without holding %s (%s needed)", pd.acc.field, pd.acc.mutex, where, pd.acc.mutex, modeName(need)))
		}
	}
}

func unwrapLoad(v ssa.Value) ssa.Value {
	if u, ok := v.(*ssa.UnOp); ok {
		return u.X
	}
	return v
}

func isFreshObject(v ssa.Value) bool {
	switch x := unwrap(v).(type) {
	case *ssa.Alloc:
		return true
	case *ssa.UnOp:
		return isFreshObject(x.X)
	}
	return false
}

func calledOnlyInternally(e *Engine, m *ssa.Function) bool {
	// exported methods may be called by anyone: treat as external unless unexported
	return false
}

func modeName(m int) string {
	switch m {
	case 2:
		return "exclusive"
	case 1:
		return "shared"
	}
	return "not held"
}

func accessOrdinal(m *ssa.Function, target *ssa.FieldAddr) int {
	n, res := 0, 0
	eachInstr(m, true, func(in ssa.Instruction) {
		fa, ok := in.(*ssa.FieldAddr)
		if !ok || fieldName(fa.X.Type(), fa.Field) != fieldName(target.X.Type(), target.Field) {
			return
		}
		if fa == target {
			res = n
		}
		n++
	})
	return res
}

var _ = strings.Contains

// heldAtCallSites: the mutex is held (in the needed mode) at every static call site of helper m;
// a calling helper that does not lock itself is checked at its own call sites (bounded depth).
func heldAtCallSites(e *Engine, m *ssa.Function, mutex string, need int, depth int) (bool, string) {
	var callSites []ssa.CallInstruction
	for _, cs := range e.callers[canon(m)] {
		if !isTestSupport(pkgOf(cs.Parent())) {
			callSites = append(callSites, cs)
		}
	}
	if len(callSites) == 0 {
		return false, "no static caller of " + fname(m)
	}
	if m.Object() != nil && m.Object().Exported() {
		return false, fname(m) + " is exported"
	}
	for _, cs := range callSites {
		caller := cs.Parent()
		var crecv ssa.Value
		if caller.Signature.Recv() != nil && len(caller.Params) > 0 {
			crecv = caller.Params[0]
		} else {
			top := topLevel(caller)
			for _, fv := range caller.FreeVars {
				if len(top.Params) > 0 && fv.Name() == top.Params[0].Name() {
					crecv = fv
				}
			}
		}
		if crecv == nil || !sameReceiver(unwrapLoad(cs.Common().Args[0]), crecv) {
			if isFreshObject(cs.Common().Args[0]) {
				continue
			}
			return false, fname(caller)
		}
		ls := locksetAt(caller, crecv, lockState{})
		if ls[cs][mutex] >= need {
			continue
		}
		// the caller may itself rely on its callers
		if depth > 0 && caller.Parent() == nil {
			if ok, w := heldAtCallSites(e, caller, mutex, need, depth-1); ok {
				continue
			} else {
				return false, w
			}
		}
		return false, fname(caller)
	}
	return true, ""
}

// ruleMemoryStoreKeyed: every index into the memory backend's per-store maps uses the method's
// store parameter (or, for assertions, a key built from store and model id).
func ruleMemoryStoreKeyed(e *Engine, r *Reporter) {
	r.Rule("memory-store-keyed", "every lookup or update of the memory backend's per-store maps (tuples, changes, authorizationModels, assertions) is indexed by the method's store parameter", 15)
	fields := map[string]bool{"tuples": true, "changes": true, "authorizationModels": true, "assertions": true}
	for _, fn := range e.Fns {
		if fn.Parent() != nil || short(pkgOf(fn)) != "pkg/storage/memory" || fn.Signature.Recv() == nil || typeBaseName(fn.Signature.Recv().Type()) != "MemoryBackend" {
			continue
		}
		sp := firstStringParam(fn)
		n := 0
		eachInstr(fn, true, func(in ssa.Instruction) {
			var m, idx ssa.Value
			switch x := in.(type) {
			case *ssa.Lookup:
				m, idx = x.X, x.Index
			case *ssa.MapUpdate:
				m, idx = x.Map, x.Key
			default:
				return
			}
			d := describe_(m)
			f := ""
			for k := range fields {
				if d == "recv."+k || d == "free:s."+k {
					f = k
				}
			}
			if f == "" {
				return
			}
			n++
			id := describe_(idx)
			ok := false
			if sp != nil {
				pn := paramName(sp)
				ok = id == pn || id == "free:"+sp.Name() || mentionsArg(id, pn)
			}
			r.Check(ok, fmt.Sprintf("memory.%s | %s[...] #%d", fn.Name(), f, n), e.instrPos(in), "indexed by "+id, "the per-store map "+f+" is indexed by "+id+", which is not the method's store parameter: data of another store is read or overwritten")
		})
	}
}

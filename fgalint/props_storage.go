package main

import (
	"fmt"
	"strings"
)

func init() {
	register("C13", "Storage backends implement the same read semantics", func(e *Engine, r *Reporter) {
		ruleFilterEffect(e, r)
		ruleGuardShape(e, r)
		ruleTupleIdentity(e, r)
		ruleUserIdentityByParts(e, r)
		ruleRowsErrConsulted(e, r)
		ruleIteratorHeadNextAgree(e, r)
		ruleConditionsPredicateUniform(e, r)
		ruleTypePrefixDelimited(e, r)
		r.Rule("sibling-sql-read", "mysql and postgres (same schema) build the same predicates for each tuple read", 4)
		ruleSiblingSQL(e, r, []string{"read", "ReadUserTuple", "ReadUsersetTuples", "ReadStartingWithUser"}, map[string]bool{"tuple": true})
	})
	register("C16", "Stores are isolated from each other", func(e *Engine, r *Reporter) {
		ruleStoreScoped(e, r)
		ruleKeyHasStore(e, r)
		ruleSingleflightKeys(e, r)
		ruleDeletedStoresHidden(e, r)
		ruleMemoryStoreKeyed(e, r)
		ruleLockset(e, r, func(p string) bool { return p == "pkg/storage/memory" }, "memory-state-guarded", 20)
		ruleRawDisjunctionParenthesised(e, r)
	})
}

func init() {
	describe("C13", meta{
		Decides:    "(1) every field of each read filter constrains the result in every backend — SQL: contributes a WHERE of the tuple SELECT; memory: a branch on it decides every place a tuple is added to the result; (2) collection-typed filter fields are applied under the same shape (always/non-nil/non-empty) in all four backends; (3) mysql and postgres, which share a schema, build identical predicates for each read.",
		NotDecided: "equality of returned sets over arbitrary histories, SQL collation/ordering, round-trip of condition contexts through the database driver.",
	})
	techniques["C13"] = "SQL statement reconstruction from SSA + control-dependence of memory emit sites + sibling agreement"
	describe("C16", meta{
		Decides:    "every squirrel statement on a store-scoped table (tuple, changelog, authorization_model, assertion) in sqlite/mysql/postgres/sqlcommon is bound to the method's store parameter: an unconditional WHERE store=<param> for SELECT/UPDATE/DELETE, the store column fed from <param> in every row shape for INSERT.",
		NotDecided: "run-time isolation over interleaved histories; residual rows of deleted stores; cache eviction effects.",
	})
	techniques["C16"] = "SQL statement reconstruction from SSA; value-origin check of the store binding"
}

func init() {
	register("C12", "Writes are atomic and honour on_duplicate/on_missing", func(e *Engine, r *Reporter) {
		ruleTxnDiscipline(e, r)
		ruleCompositeKeyComplete(e, r)
		ruleBatchStride(e, r)
		ruleLockset(e, r, func(p string) bool { return p == "pkg/storage/memory" }, "memory-state-guarded", 20)
	})
	register("C15", "The changelog faithfully records tuple history", func(e *Engine, r *Reporter) {
		ruleAppendOnly(e, r, "changelog", "changelog-append-only", "the changelog table is only ever SELECTed or INSERTed, and INSERTs run on the write transaction", 6, true)
		ruleBatchStride(e, r)
		ruleMemoryHorizonCut(e, r)
	})
	register("C17", "Models are validated, immutable and resolved to the latest", func(e *Engine, r *Reporter) {
		ruleAppendOnly(e, r, "authorization_model", "model-immutable-sql", "no UPDATE/DELETE statement on authorization_model exists in any SQL backend", 8, false)
		ruleModelWrite(e, r)
		ruleSingleflightKeys(e, r)
	})
	register("C31", "Assertions are stored and returned verbatim per store and model", func(e *Engine, r *Reporter) {
		ruleAssertionsKeyed(e, r)
		ruleAssertionsWriteAlwaysPersists(e, r)
		ruleProtoCopyComplete(e, r, "pkg/storage", "")
	})
}

func init() {
	register("C10", "Higher-consistency requests are never stale", func(e *Engine, r *Reporter) {
		ruleConsistencyBypass(e, r)
		ruleBypassDelegates(e, r)
		ruleConsistencyForwarded(e, r)
		ruleConsistencyInLiterals(e, r)
		rulePgPool(e, r)
	})
}

func init() {
	register("C26", "API access control allows exactly what the control store grants", func(e *Engine, r *Reporter) {
		ruleAuthorizeBeforeData(e, r)
		ruleFailClosed(e, r)
		ruleSkipAuthzOwner(e, r)
		ruleListStoresFilter(e, r)
		ruleEveryTupleContributesModule(e, r)
		ruleListStoresIDsPredicate(e, r)
		ruleAuthzRequestsPinModel(e, r)
		r.Rule("apimethod-total", "Authorizer.getRelation handles every apimethod.APIMethod constant; unknown methods are an error", 1)
		nAPI := 0
		for _, s := range e.valueSwitches() {
			if s.Subject == "APIMethod" && s.Pkg.PkgPath == modPath+"/internal/authz" {
				nAPI++
				ok, d := judgeSwitch(s, nil)
				r.Check(ok && len(s.Missing) == 0, s.key(), e.pos(s.Pos), d, d)
			}
		}
		// the same table written as a map literal keyed by APIMethod
		for i, tb := range e.enumKeyedMapLiterals("APIMethod") {
			if tb.Pkg != "internal/authz" {
				continue
			}
			nAPI++
			r.Check(len(tb.Missing) == 0, fmt.Sprintf("internal/authz APIMethod lookup table #%d", i), e.pos(tb.Pos), fmt.Sprintf("total: covers %v", tb.Covered), fmt.Sprintf("API methods %v have no relation in the lookup table", tb.Missing))
		}
		if nAPI == 0 {
			blind("apimethod-total: neither a switch nor a lookup table over apimethod.APIMethod found in internal/authz")
		}
	})
}

func init() {
	describe("C10", meta{
		Decides:    "(1) every read of an answer cache (InMemoryCache.Get outside the frozen non-answer caches, the shared-iterator map) lies behind `preference != HIGHER_CONSISTENCY` in its function or at every static call site up the chain; (2) the three caching reader wrappers forward the caller's filter and options unchanged to the wrapped reader; (3) every options value passed to a tuple reader from the engines, and every params/request literal with a Consistency field, carries a non-constant consistency; (4) postgres reads pick their pool via getPgxPool(options.Consistency.Preference) and the replica is returned only when the preference is not HIGHER_CONSISTENCY.",
		NotDecided: "staleness of the database itself or of replicas for non-higher requests; run-time interleavings of writes and cache fills.",
	})
	techniques["C10"] = "cut-reachability on SSA (must-pass-through of the consistency test) up the static call chain; option-literal coverage"
	describe("C12", meta{
		Decides:    "SQL transaction typestate of every function that begins a transaction (sqlite write, sqlcommon.Write used by mysql, postgres write, mysql CreateStore): rollback deferred before any statement; every statement and every statement-running helper runs on the transaction, never on the bare handle; statement errors are consumed; a success return is reachable only through Commit()==nil or before any statement ran. Exhaustive, fail-closed switches over on_duplicate/on_missing options.",
		NotDecided: "crash atomicity itself (delegated to the database's transaction guarantee), row-level races between writers, memory backend write atomicity beyond the lock discipline.",
	})
	techniques["C12"] = "typestate/must-pass-through over SSA + SQL statement reconstruction"
	describe("C15", meta{
		Decides:    "the changelog table is append-only in every SQL backend (only SELECT and INSERT statements exist) and every INSERT runs on the write transaction.",
		NotDecided: "replay equality, horizon arithmetic, ordering of ULIDs.",
	})
	techniques["C15"] = "SQL statement matrix (verb x table) reconstructed from SSA"
	describe("C17", meta{
		Decides:    "(1) no UPDATE or DELETE statement on authorization_model exists in any SQL backend; (2) the backend's WriteAuthorizationModel is called only from the write command (and delegating wrappers), behind a successful typesystem.NewAndValidate of the same model value, with an id from ulid.Make() and the request's store; (3) no implementation or wrapper of FindLatestAuthorizationModel reads the model cache, the typesystem cache key uses the resolved id, and the singleflight keys that coalesce model lookups carry the store.",
		NotDecided: "validation completeness, identifier monotonicity (clock/entropy), latest-model resolution under concurrency.",
	})
	techniques["C17"] = "SQL statement matrix (verb x table) reconstructed from SSA"
	describe("C26", meta{
		Decides:    "(1) in each of the RPC handlers of *server.Server (native and AuthZEN) every call that reaches data — commands.*, the datastore, v2Check, model resolution except the frozen pair Write/ActionSearch — is passed only after checkAuthz/checkWriteAuthz/checkCreateStoreAuthz/getAccessibleStores returned nil, called with the request's own store id and the handler's own API method; (2) the authorisation helpers and the Authorizer are fail-closed: nil only behind a positive decision, no error of a consulted layer can reach a nil return; (3) ContextWithSkipAuthzCheck is called only inside internal/authz; (4) ListStores never reaches the query with a non-nil empty authorised set; (5) getRelation covers every APIMethod constant.",
		NotDecided: "that the access-control store's own model grants the intended relations; module computation for writes.",
	})
	techniques["C26"] = "must-pass-through (cut reachability on SSA) per RPC handler; fail-closed return analysis; who-may-call"
	describe("C31", meta{
		Decides:    "every assertion statement in sqlite/mysql/postgres is keyed by both store and authorization_model_id bound to the method's parameters, writes are upserts on that pair, and the memory backend indexes assertions by a key built from both parameters.",
		NotDecided: "byte-for-byte equality across marshal round trips.",
	})
	techniques["C31"] = "SQL statement reconstruction from SSA; map-key origin check"
}

func init() {
	register("C24", "Cache keys distinguish every answer-relevant input", func(e *Engine, r *Reporter) {
		ruleKeyParamsEncoded(e, r)
		ruleKeySerializers(e, r)
		ruleKeyCanonicalOrder(e, r)
		ruleKeyHasStore(e, r)
		ruleEncodeNotEmptinessConditional(e, r)
		ruleDigestFedFramedBytes(e, r)
	})
}

func init() {
	register("C14", "Paginated reads return every item exactly once", func(e *Engine, r *Reporter) {
		rulePagingSQL(e, r)
		ruleMemorySortLast(e, r)
		ruleTokenHandling(e, r)
		ruleModelIDListDistinct(e, r)
	})
	describe("C14", meta{
		Decides:    "(1) in every paginated SQL statement of sqlite/mysql/postgres the continuation token is compared with the ORDER BY column in the matching direction, inclusive comparison is paired with LIMIT pageSize+1 and exclusive with LIMIT pageSize, and the three backends agree per method; (2) the memory backend sorts the complete filtered list before the offset token is applied; (3) every paging command queries the backend only after Encoder.Decode succeeded, with a position derived from the decoded token, and ReadChanges reaches the backend with a token only when the token's type equals the requested type.",
		NotDecided: "exactly-once over concrete data, ULID monotonicity within a millisecond, concurrent writers during paging, the post-query truncation arithmetic.",
	})
	techniques["C14"] = "SQL statement reconstruction (token/order/limit agreement, sibling comparison) + cut reachability in the paging commands"
	describe("C24", meta{
		Decides:    "(1) every input of each of the 21 cache/planner/invalidation key builders reaches the encoding: scalar parameters are encoded, every field of a filter struct is read into the key, request/edge-typed inputs contribute at least the reviewed getter set; (2) keys.Tuple.WriteTo covers object, relation, user, condition name and context, keys.PbValue.WriteTo is total over structpb kinds and sorts struct fields; (3) list-valued inputs are sorted before being encoded; (4) every shared key encodes the store id (a value that is the store at every call site).",
		NotDecided: "prefix-freeness of the TLV framing itself; 64-bit digest collisions (excluded by the statement).",
	})
	techniques["C24"] = "access-path (field coverage) analysis of key builders; must-precede of sort calls; call-site origin of the store component"
}

func init() {
	register("C09", "Iterator caches never change answers", func(e *Engine, r *Reporter) {
		ruleFlushOnlyWhenDone(e, r)
		ruleBufferDroppedOnError(e, r)
		ruleElisionAgreement(e, r)
		ruleSharedFillContext(e, r)
		ruleNoLossAfterConsume(e, r)
	})
	describe("C09", meta{
		Decides:    "(1) every call of a function that stores an iterator cache entry lies behind errors.Is(err, storage.ErrIteratorDone) on the underlying iterator, and the stored entry's LastModified is the query start time kept in the iterator; (2) in both caching iterators' Next a non-done, non-cancelled error drops the buffer; (3) every field written into a cached record is read back by the rebuild function and every elided field is restored from the iterator's own value (v1 TupleRecord and v2 MinimalCacheEntry); (4) the shared iterator fills its shared buffer under context.Background(); plus key completeness (C24) and higher-consistency bypass (C10) for the iterator caches.",
		NotDecided: "interleavings of background drains, singleflight sharing, abandoned shared-iterator clones, run-time equality of cached and uncached answers.",
	})
	techniques["C09"] = "cut reachability (flush behind ErrIteratorDone), writer/reader field agreement on cached records"
}

func init() {
	register("C08", "The Check query cache never changes answers", func(e *Engine, r *Reporter) {
		ruleQueryCacheV1(e, r)
		ruleCycleFlagMonotone(e, r)
		ruleEdgeCacheVisited(e, r)
		ruleRequestConstructedByConstructor(e, r)
	})
	describe("C08", meta{
		Decides:    "(1) CachedCheckResolver stores a response only behind err==nil and !CycleDetected and serves one only behind LastModified.After(LastCacheInvalidationTime); (2) the cycle marker is sticky while child results are folded in internal/graph (a non-constant assignment only on a terminal path), so the !CycleDetected guard sees every cycle cut; (3) the weighted-graph engine caches an edge result under EdgeCacheKey only if it is positive or was computed without the request-scoped visited filter, and ResolveEdge hands the raw visited map to a callee only where usesVisited holds; plus completeness of CheckCacheKey / EdgeCacheKey / InvariantCacheKey (C24) and the consistency bypass (C10).",
		NotDecided: "dynamic equality of cached and fresh answers over request histories; ListObjects candidates evaluated with requests built outside NewResolveCheckRequest.",
	})
	techniques["C08"] = "cut reachability on SSA (cache.Set / cached return guards), store-in-loop monotonicity check"
}

func init() {
	register("C07", "BatchCheck is equivalent to individual Checks", func(e *Engine, r *Reporter) {
		ruleBatchCheck(e, r)
		ruleSwappedWiring(e, r, []string{"pkg/server"}, 20)
	})
	describe("C07", meta{
		Decides:    "(1) every BatchCheckItem field forwarded to the per-item Check (tuple key with all three components, contextual tuples, context) and the request-level store and model are read by the de-duplication key, and the contextual tuples actually reach InvariantCacheKey's variadic parameter; (2) the per-item closures never return a non-nil error to the cancel-on-error pool and store an outcome on every path.",
		NotDecided: "equality of each outcome with a standalone Check (inherits C01), hash collisions of the 64-bit invariant, scheduling of the pool.",
	})
	techniques["C07"] = "access-path comparison (forwarded fields vs key fields) + return-site analysis of pool closures"
}


func init() {
	register("C25", "Condition evaluation follows the declared CEL semantics", func(e *Engine, r *Reporter) {
		ruleConditionEval(e, r)
		ruleConditionFilterInstalled(e, r)
	})
	describe("C25", meta{
		Decides:    "(1) EvaluateTupleCondition is fail-closed: every error return carries false, constant true only for a tuple without condition, the computed decision is ConditionMet behind Evaluate()==nil and an empty MissingParameters; (2) merge order: request context first, tuple context appended, Evaluate clones contextMaps[0] and copies contextMaps[1:] over it (later wins, so stored values take precedence); (3) every decode/convert/compile/evaluate error in CastContextToTypedParameters and Evaluate leads to a non-nil error return; (4) the weighted-graph engine skips the condition filter only on paths proving the edge unconditioned (len<=1 and conditions[0]==NoCond).",
		NotDecided: "CEL's own semantics and the converters' value mapping per parameter type.",
	})
	techniques["C25"] = "return-site analysis + cut reachability on SSA; argument-order check of the context merge"
}

// rewriteSwitchAllowances: reviewed intentional subsets of the six rewrite kinds (reason each).
var rewriteSwitchAllowances = map[string]switchAllowance{
	"pkg/typesystem.TypeSystem.ResolveComputedRelation switch(isUserset_Userset)": {[]string{"Userset_Difference", "Userset_Intersection", "Userset_TupleToUserset", "Userset_Union"}, "follows chains of computed usersets only; anything else is an error by contract (default fails closed)"},
	"pkg/typesystem.TypeSystem.relationInvolves switch(isUserset_Userset)":        {[]string{"Userset_This", "Userset_Union"}, "a visitor for WalkUsersetRewrite that only reacts to the kinds it looks for; the walk itself is total"},
	"pkg/typesystem.TypeSystem.isUsersetRewriteValid switch(isUserset_Userset)":   {[]string{"Userset_This"}, "direct assignment needs no structural validation here (type restrictions are validated separately)"},
	"pkg/typesystem.flattenUserset switch(isUserset_Userset)":                     {[]string{"Userset_ComputedUserset", "Userset_This"}, "leaves are returned as they are"},
}

func ruleRewriteDispatch(e *Engine, r *Reporter, pkgs []string, table map[string]switchAllowance, ruleID, text string, floor int) {
	r.Rule(ruleID, text, floor)
	for _, s := range e.typeSwitches() {
		if s.Subject != "isUserset_Userset" {
			continue
		}
		in := false
		for _, p := range pkgs {
			if short(s.Pkg.PkgPath) == p {
				in = true
			}
		}
		if !in {
			continue
		}
		ok, d := judgeSwitch(s, table)
		r.Check(ok, s.key(), e.pos(s.Pos), d, d)
	}
}

func init() {
	register("C01", "Check decisions match the model's relation semantics", func(e *Engine, r *Reporter) {
		ruleRewriteDispatch(e, r, []string{"internal/graph", "pkg/typesystem"}, rewriteSwitchAllowances, "rewrite-dispatch-total", "every type switch over the six rewrite kinds in the default engine and the typesystem covers all of them, or the reviewed subset with a fail-closed default", 8)
		ruleReadSitesFiltered(e, r, map[string]bool{"v1": true}, 8)
		ruleDirectTupleGuards(e, r)
		ruleValidatorReference(e, r)
		ruleConditionErrorsUsed(e, r, []string{"internal/graph", "internal/checkutil", "pkg/server/commands", "internal/check", "internal/listobjects"})
		ruleCloneComplete(e, r, []string{"internal/graph", "internal/check", "pkg/server/commands/reverseexpand"})
		// the fail-closed core of condition evaluation is shared with C25
		ruleConditionEval(e, r)
		ruleStrategyPredicateRejectsOverweight(e, r)
	})
	describe("C01", meta{
		Decides:    "(1) rewrite dispatch in the default engine and the typesystem is total over the six rewrite kinds (reviewed subsets frozen with reasons); (2) every iterator or tuple the default engine, ListUsers and reverse expansion obtain from a tuple reader passes FilterInvalidTuples/ValidateTupleForRead and a condition evaluation before use, and checkDirectUserTuple sets Allowed only behind both; (3) condition evaluation is fail-closed (C25 rules) and every caller consumes its error; (4) the sub-problem request clones (graph, check, reverse expand) assign every field of their struct.",
		NotDecided: "that the reducers, the cycle cut and PathExists pruning implement the least fixpoint; three-valued precedence inside union/intersection/exclusion; the content of the validators (which tuples they accept).",
	})
	techniques["C01"] = "exhaustiveness of rewrite switches, forward value-flow of read results into filter constructors, cut reachability, clone field coverage"
}

func init() {
	register("C18", "Tuple validation accepts exactly what the model allows", func(e *Engine, r *Reporter) {
		ruleWriteValidated(e, r)
		ruleContextualTuplesValidated(e, r)
		ruleValidatorReference(e, r)
	})
	describe("C18", meta{
		Decides:    "(1) WriteCommand reaches datastore.Write only behind validateWriteRequest()==nil; in it ValidateTupleForWrite, validateNotImplicit, the duplicate/size check and the condition-context size limit all stop the request on failure; ValidateTupleForWrite chains to ValidateUserObjectRelation and returns ValidateTupleForRead, which propagates the errors of the tupleset, type-restriction and condition validators; (2) every place where contextual tuples become readable by an engine is preceded on every path (in the function or up the static call chain) by a validation loop whose error stops the request; (3) validateCondition decides on both the restriction's type and condition (reviewed reference set).",
		NotDecided: "that the validators accept exactly the documented set of tuples (their internal value-level logic beyond the reference sets).",
	})
	techniques["C18"] = "must-pass-through / dominance of validator calls, error-propagation analysis on SSA, reviewed getter reference sets"
}

func init() {
	register("C11", "The cache controller bounds staleness after writes", func(e *Engine, r *Reporter) {
		ruleInvalidationWiring(e, r)
		ruleSwappedWiring(e, r, []string{"internal/shared", "internal/cachecontroller", "pkg/server", "pkg/storage/storagewrappers", "cmd"}, 20)
	})
	describe("C11", meta{
		Decides:    "mechanism wiring only: (1) each of the three invalidation marker keys is written by the controller and consulted by both iterator caches; (2) an iterator cache hit is returned only behind the comparison of the entry's LastModified with the store-wide and every per-entity marker; (3) in the controller the no-new-changes shortcut compares with the cached LastModified, a failed changelog read invalidates the store, each partial change writes both marker kinds, the stored entry records the newest change time; (4) the query cache's validity time comes from DetermineInvalidationTime of the request's store (and clones keep it, C01 clone rule).",
		NotDecided: "the temporal statement itself: which entries are stale after which run, the partial/full boundary versus the TTL window, entries populated during a run — these depend on clocks and interleavings.",
	})
	techniques["C11"] = "who-calls agreement of marker keys, cut reachability on cache-hit returns, reviewed reference of the controller's comparisons"
}

func init() {
	register("C27", "Authentication accepts exactly valid credentials", func(e *Engine, r *Reporter) {
		ruleOIDC(e, r)
		rulePSK(e, r)
	})
	describe("C27", meta{
		Decides:    "(1) the OIDC JWT parser is built with valid methods exactly [RS256], issued-at validation, required expiry and the configured audience; keys come from the issuer JWKS; claims are returned only behind a nil parse error, token.Valid, an issuer accepted by a validator built from the main issuer or an alias, and a subject accepted when subjects are configured; (2) the pre-shared-key authenticator compares the token hash with every configured hash by subtle.ConstantTimeCompare in a loop without early exit and succeeds only on matched==1; the middleware rejects on an Authenticate error.",
		NotDecided: "the JWT library's own validation and cryptography; JWKS refresh behaviour.",
	})
	techniques["C27"] = "option-set check of the parser construction + cut reachability on success returns"
	register("C28", "Continuation tokens round-trip and resist tampering", func(e *Engine, r *Reporter) {
		ruleTokens(e, r)
		ruleTokenHandling(e, r)
		ruleTokenCodecSymmetric(e, r)
	})
	describe("C28", meta{
		Decides:    "TokenEncoder.Decode = base64 decode then Decrypt with both errors returned and Decrypt's verdict as result; GCMEncrypter.Decrypt returns plaintext only from AEAD.Open (empty input passthrough aside), Encrypt seals; each paging handler hands the server's encoder to its command, and each command queries the backend only behind a successful Decode (C14 token rule); serializer codec symmetry (json.Marshal of T vs json.Unmarshal into T).",
		NotDecided: "round-trip equality of positions over all values; AES-GCM itself (trusted).",
	})
	techniques["C28"] = "return-value origin analysis of the decode/decrypt chain; who-passes-what for the encoder option"
}

func init() {
	register("C05", "ListObjects returns exactly the permitted objects", func(e *Engine, r *Reporter) {
		ruleFurtherEvalSticky(e, r)
		ruleObjectsConfirmedByCheck(e, r)
		ruleReadSitesFiltered(e, r, map[string]bool{"v1": true, "pipeline": true}, 10)
		r.Rule("reverse-expand-dispatch-total", "edge-kind switches of the reverse expansion cover every kind or fail closed", 3)
		for _, s := range e.valueSwitches() {
			if short(s.Pkg.PkgPath) == "pkg/server/commands/reverseexpand" && (s.Subject == "RelationshipEdgeType" || s.Subject == "EdgeType") {
				ok, d := judgeSwitch(s, nil)
				r.Check(ok, s.key(), e.pos(s.Pos), d, d)
			}
		}
	})
	describe("C05", meta{
		Decides:    "the soundness skeleton: (1) the further-evaluation flag of the classic reverse expansion is sticky along a path (every hand-over depends on the caller's flag) and trySendCandidate turns it into RequiresFurtherEvalStatus behind a first-time LoadOrStore; (2) ListObjectsQuery.evaluate sends such a candidate only behind Allowed of a Check built from the request's relation, user, contextual tuples, context, consistency and store, and object results are built only in trySendObject; (3) every datastore read of the reverse expansion and of the pipeline passes the model filter and a condition evaluation; (4) edge-kind dispatch is total or fails closed.",
		NotDecided: "completeness of the result set, exact-limit behaviour, that the flag is raised on every path through an intersection/exclusion in the weighted variant, worker interleavings.",
	})
	techniques["C05"] = "value-dependence check of the further-eval flag across the call graph, cut reachability, forward flow of read results"
}

func init() {
	register("C21", "The ListObjects pipeline tears down cycles without losing work", func(e *Engine, r *Reporter) {
		rulePipelineOrdering(e, r)
	})
	describe("C21", meta{
		Decides:    "ordering obligations only: (1) message accounting — MsgFunc before Send, Done on a failed Send, Done after every processed message and in a deferred function on panic, no received message dropped on cancellation; (2) Basic.Execute signals ready after wgStandard.Wait(), waits for quiescence and for its predecessor under context.Background(), closes listeners after quiescence and before waking the successor, and wakes the successor on every exit; (3) the ready/quiescence/wake latches are closed behind one-shot guards and SignalReady both reports and decrements.",
		NotDecided: "the quantified statement over interleavings (premature quiescence or a stuck wake chain under a particular schedule needs state exploration).",
	})
	techniques["C21"] = "typestate/ordering via cut reachability on SSA (must-precede, must-follow, loop re-entry)"
}

func init() {
	register("C20", "Queries terminate and release their resources", func(e *Engine, r *Reporter) {
		ruleIteratorOwnership(e, r, []string{"internal/graph", "internal/check", "internal/checkutil", "pkg/server/commands", "internal/listobjects"})
		// Only the default engine: its channels carry datastore-backed iterators. In internal/check the
		// bottom-up output channels carry in-memory batches (triage/F10_notes_false_alarm.md); the
		// ownership there is checked by ruleBottomUpOwnership instead.
		ruleMessageIterators(e, r, []string{"internal/graph"})
		ruleBottomUpOwnership(e, r)
		ruleBackgroundDrainStopsInner(e, r)
	})
}

func init() {
	register("C23", "Iterator adapters and shared iterators yield their specified sequences", func(e *Engine, r *Reporter) {
		ruleStopDelegation(e, r)
		ruleStatefulFilterLast(e, r)
		ruleLockset(e, r, func(p string) bool {
			return p == "pkg/storage" || p == "pkg/storage/sqlcommon" || p == "pkg/storage/sqlite" || strings.HasPrefix(p, "pkg/storage/storagewrappers")
		}, "iterator-state-guarded", 20)
		ruleSharedFillContext(e, r)
		ruleFilterChainShortCircuits(e, r)
	})
	describe("C23", meta{
		Decides:    "(1) every iterator adapter's Stop stops every iterator it holds; (2) a stateful de-duplication filter is the last filter of its chain (F5); (3) every access to adapter state documented GUARDED_BY(mu) happens with the mutex held (flow-sensitive must-lockset, helpers checked at their call sites); (4) the shared iterator fills its shared buffer under context.Background().",
		NotDecided: "sequence equality, merge order, shared-iterator clone semantics under interleavings.",
	})
	techniques["C23"] = "GUARDED_BY must-lockset dataflow on SSA, Stop-delegation reachability, append-order reachability"
	register("C22", "Internal concurrent queues behave like FIFO channels", func(e *Engine, r *Reporter) {
		ruleLockset(e, r, func(p string) bool { return strings.HasPrefix(p, "internal/containers") }, "queue-state-guarded", 10)
		ruleAccumulatorClosedSticky(e, r)
	})
	describe("C22", meta{
		Decides:    "data-race freedom of the mpmc queue's resizable state: data, capacity and extended are written only with mu held exclusively and read only with mu held (shared or exclusive), across the unlock/relock sequences of Send/Recv; helpers (mask, extend) are called only with the lock held; the accumulator's closed state (head == nil) is sticky: head is written only by Swap/Store(nil) or by a CompareAndSwap whose expected value is proven non-nil.",
		NotDecided: "linearizability, lost wake-ups, FIFO order — schedule properties.",
	})
	techniques["C22"] = "flow-sensitive must-lockset over SSA for the documented lock discipline"
	describe("C20", meta{
		Decides:    "iterator ownership: every iterator a request-path function obtains from a call is stopped or handed over on every path to its exits (error branch of the producing call exempt; in-memory iterators and wrappers of an iterator the function stops itself exempt), and an iterator received inside a channel message and consumed is stopped before the next receive or the return.",
		NotDecided: "the deadline bound itself, goroutine census at run time, CEL interruption latency, termination on cyclic data.",
	})
	techniques["C20"] = "acquire/release typestate via cut reachability on SSA with ownership-transfer idioms"
}

func init() {
	register("C30", "Expand mirrors the rewrite and the directly assigned users", func(e *Engine, r *Reporter) {
		ruleExpand(e, r)
		ruleReadSitesFiltered(e, r, map[string]bool{"expand": true}, 1)
		ruleMutatingCommandPerRequest(e, r)
		ruleCancelIsNotEndOfData(e, r)
	})
	describe("C30", meta{
		Decides:    "resolveUserset dispatches all six rewrite kinds (default fails) to resolvers that build the node kind of the same name, named toObjectRelation(tk); Difference keeps [base, subtract] order end to end and resolveUsersets stores child i at index i; the two leaf readers pass FilterInvalidTuples, collect through a set, and resolveThis sorts users on every path to the leaf; contextual tuples are validated and read through (C18, C04 rules).",
		NotDecided: "tree equality against the model over all models and tuple sets.",
	})
	techniques["C30"] = "AST case->callee pairing + SSA description of the returned node literal; must-precede of the sort"
}

func init() {
	register("C32", "AuthZEN endpoints agree with the native API", func(e *Engine, r *Reporter) {
		ruleAuthZen(e, r)
	})
	describe("C32", meta{
		Decides:    "layering and derivation: AuthZEN handlers and helpers never call commands.*, resolvers or the datastore (ActionSearch's model resolution excepted) but the native handlers; every Decision is the un-negated GetAllowed() of the native result or constant false with an error context; evaluateAll correlates item i with result i; every native request carries the AuthZEN request's store; search results are projections of the native ListUsers/StreamedListObjects results and ActionSearch returns a relation only when its check is allowed.",
		NotDecided: "that the request mapping (properties merged into context, subject/resource to user/object strings) is the intended one — a specification question.",
	})
	techniques["C32"] = "who-may-call layering + value-origin analysis of the decision fields"
}

func init() {
	register("C29", "Tuple and user string encodings round-trip", func(e *Engine, r *Reporter) {
		ruleTupleConverters(e, r)
		ruleControlCharsRejectedUnconditionally(e, r)
	})
	describe("C29", meta{
		Decides:    "thin structural part only: the proto<->domain tuple-key converters in pkg/tuple read and assign every field their source and target share; UserProtoToString is total over the three User variants with a failing default and StringToUserProto produces each variant; every IsValid* scanner applies unicode.IsControl to every rune unconditionally and rejects on a hit.",
		NotDecided: "round-trip equality and the validity grammar over all strings — value-level, outside this technique.",
	})
	techniques["C29"] = "field-coverage (access path) analysis of converters + oneof exhaustiveness"
}

func init() {
	register("C06", "ListUsers returns exactly the permitted users", func(e *Engine, r *Reporter) {
		ruleRewriteDispatch(e, r, []string{luPkg}, nil, "listusers-dispatch-total", "expandRewrite covers every rewrite kind (unknown kinds fail)", 1)
		ruleListUsers(e, r)
		ruleReadSitesFiltered(e, r, map[string]bool{"v1": true}, 8)
		ruleExcludedUsersForwarded(e, r)
		ruleCancelIsNotEndOfData(e, r)
	})
	describe("C06", meta{
		Decides:    "expandRewrite is total over rewrite kinds; expand evaluates a rewrite only behind !enteredCycle with a key of object and relation; both datastore reads pass the model filter and a condition evaluation with the error consumed; intersection bookkeeping gives one vote per operand (counts change by exactly 1, send only when count+wildcards == operands); the wildcard-base branch of exclusion reports a positive only when neither the user nor the wildcard is subtracted (reviewed reference).",
		NotDecided: "completeness of the returned set, the rest of the wildcard/exclusion bookkeeping, filter-type matching of returned entries — value-level.",
	})
	techniques["C06"] = "exhaustiveness, cut reachability, forward flow of read results, reviewed arithmetic/guard references"
}

func init() {
	register("C04", "Contextual tuples behave exactly like stored tuples", func(e *Engine, r *Reporter) {
		ruleContextualAboveCaches(e, r)
		ruleCombinedReaderOverrides(e, r)
		ruleNoPersistence(e, r)
		ruleV2ContextualPairing(e, r)
		ruleMergeComparator(e, r)
		ruleContextualTuplesValidated(e, r)
		ruleExistentialSearchLoops(e, r, []string{"pkg/storage/storagewrappers"}, 1)
		ruleContextualListNoPositionalAssumption(e, r)
	})
	describe("C04", meta{
		Decides:    "(1) the per-request reader is a CombinedTupleReader built from the request's contextual tuples on top of the shared layers, and no shared cache/iterator/bounded reader is ever built on top of one; (2) CombinedTupleReader has its own four read methods, each reading the contextual tuples; (3) the datastore's Write is reached only from the Write command with the request's writes/deletes; (4) every datastore read of the weighted-graph engine is paired with a contextual-tuple lookup, and the stored/contextual merge comparator is the reviewed one; (5) contextual tuples are validated before use (C18 rule) and are part of every decision-cache key (C24, C07 rules).",
		NotDecided: "that merging yields the same answers as storing (duplicates, ordering, object-id and condition filters on the contextual side).",
	})
	techniques["C04"] = "who-may-construct / value-origin layering rules, method-set check, read-site pairing"
}

func init() {
	register("C03", "Weighted-graph Check agrees with the default engine", func(e *Engine, r *Reporter) {
		ruleV2Dispatch(e, r)
		ruleV2Fallback(e, r)
		ruleStatefulFilterLast(e, r)
		ruleEdgeCacheVisited(e, r)
		ruleV2ContextualPairing(e, r)
		ruleMergeComparator(e, r)
		ruleCloneComplete(e, r, []string{"internal/check"})
		ruleConditionFilterInstalled(e, r)
		ruleExistentialSearchLoops(e, r, []string{"pkg/server/commands/v2breaking", "pkg/typesystem"}, 4)
		ruleWalkHandlerResults(e, r)
		ruleSingleEdgeFromLoop(e, r)
	})
	describe("C03", meta{
		Decides:    "(1) every dispatch of the weighted-graph engine over edge/node kinds is total or fails closed (ErrPanicRequest is non-terminal, so the server falls back); (2) in Server.Check a non-terminal v2 error can only be answered through the default engine's Execute, the terminal set is the reviewed one, both reporting sites consult the detector and the detector knows every Err…InvalidRequest sentinel; (3) engine-internal invariants found defective or fragile while reading: stateful de-duplication filter last (F5), negative results cached only when visited-independent (F4), raw visited map only behind usesVisited, contextual pairing of every read, the stored/contextual merge comparator, complete request clones.",
		NotDecided: "equality of decisions with the reference semantics for object subjects; that the breaking-change predicates never miss a divergence (a statement over all models).",
	})
	techniques["C03"] = "enum exhaustiveness, cut reachability of the fallback path, sentinel/detector table agreement"
	register("C02", "Check and ListObjects answers do not depend on strategy or tuning", func(e *Engine, r *Reporter) {
		ruleStrategyGuards(e, r)
		ruleStrategyPredicateRejectsOverweight(e, r)
		ruleTuningNotInDecisions(e, r)
		ruleSharedFillContext(e, r)
		ruleStatefulFilterLast(e, r)
		ruleConditionFilterInstalled(e, r)
	})
	describe("C02", meta{
		Decides:    "(1) every reference to a fast-path handler of the default engine is control-dependent on the typesystem predicate that makes the strategy valid (or on the strategy having been offered under it); (2) concurrency/breadth limits flow only into pool limits, capacities and options — never into a comparison or arithmetic that could cut results; (3) state shared between concurrent requests is filled under context.Background() (shared iterator), and the recursive strategy's filter chain keeps the de-duplication filter last (so it evaluates conditions like the default strategy).",
		NotDecided: "that the weight-two and recursive algorithms compute the same set as the default one where they are offered; schedule independence.",
	})
	techniques["C02"] = "control-dependence (cut reachability) of strategy references; taint of tuning knobs into decisions"
}

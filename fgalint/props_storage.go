package main

func init() {
	register("C13", "Storage backends implement the same read semantics", func(e *Engine, r *Reporter) {
		ruleFilterEffect(e, r)
		ruleGuardShape(e, r)
		r.Rule("sibling-sql-read", "mysql and postgres (same schema) build the same predicates for each tuple read", 4)
		ruleSiblingSQL(e, r, []string{"read", "ReadUserTuple", "ReadUsersetTuples", "ReadStartingWithUser"}, map[string]bool{"tuple": true})
	})
	register("C16", "Stores are isolated from each other", func(e *Engine, r *Reporter) {
		ruleStoreScoped(e, r)
	})
}

func init() {
	describe("C13", meta{
		Decides:    "(1) every field of each read filter constrains the result in every backend — SQL: contributes a WHERE of the tuple SELECT; memory: a branch on it decides every place a tuple is added to the result; (2) collection-typed filter fields are applied under the same shape (always/non-nil/non-empty) in all four backends; (3) mysql and postgres, which share a schema, build identical predicates for each read.",
		NotDecided: "equality of returned sets over arbitrary histories, SQL collation/ordering, round-trip of condition contexts through the database driver.",
	})
	techniques["C13"] = "SQL statement reconstruction from SSA + control-dependence of memory emit sites + sibling agreement"
	describe("C16", meta{
		Decides:    "every squirrel statement on a store-scoped table (tuple, changelog, authorization_model, assertion) in sqlite/mysql/postgres/sqlcommon is bound to the method's store parameter: an unconditional WHERE store=<param> for SELECT/UPDATE/DELETE, the store column fed from <param> in every row shape for INSERT.",
		NotDecided: "run-time isolation over interleaved histories; residual rows of deleted stores; cache eviction effects.",
	})
	techniques["C16"] = "SQL statement reconstruction from SSA; value-origin check of the store binding"
}

package main

// Clone completeness (C01.4, also serves C08/C10/C11): a function that builds a fresh copy of
// its receiver's struct must assign every field.

import (
	"fmt"
	"go/types"
	"strings"

	"golang.org/x/tools/go/ssa"
)

// cloneExempt: fields a clone deliberately leaves at the zero value (one reason each).
var cloneExempt = map[string]string{}

func ruleCloneComplete(e *Engine, r *Reporter, pkgs []string) {
	r.Rule("clone-complete", "every clone/cloneWith* method that allocates a fresh value of its receiver's struct assigns every field of that struct (a forgotten field silently resets to zero in every sub-problem request)", 2)
	for _, fn := range e.Fns {
		if fn.Parent() != nil || fn.Signature.Recv() == nil || isTestSupport(pkgOf(fn)) {
			continue
		}
		okPkg := false
		for _, p := range pkgs {
			if short(pkgOf(fn)) == p {
				okPkg = true
			}
		}
		if !okPkg {
			continue
		}
		ln := strings.ToLower(fn.Name())
		if !strings.HasPrefix(ln, "clone") {
			continue
		}
		rt := derefType(fn.Signature.Recv().Type())
		named, ok := rt.(*types.Named)
		if !ok {
			continue
		}
		st, ok := named.Underlying().(*types.Struct)
		if !ok {
			continue
		}
		// result must be (pointer to) the same struct
		if fn.Signature.Results().Len() != 1 || !types.Identical(derefType(fn.Signature.Results().At(0).Type()), named) {
			continue
		}
		// fresh allocations of the struct in fn
		var allocs []*ssa.Alloc
		eachInstr(fn, false, func(in ssa.Instruction) {
			if a, ok := in.(*ssa.Alloc); ok && types.Identical(derefType(a.Type()), named) {
				allocs = append(allocs, a)
			}
		})
		if len(allocs) == 0 {
			continue // copies by value or delegates (e.g. proto.Clone)
		}
		written := map[string]bool{}
		for _, a := range allocs {
			if a.Referrers() == nil {
				continue
			}
			for _, ref := range *a.Referrers() {
				fa, ok := ref.(*ssa.FieldAddr)
				if !ok || fa.Referrers() == nil {
					continue
				}
				for _, rr := range *fa.Referrers() {
					if s, ok := rr.(*ssa.Store); ok && s.Addr == ssa.Value(fa) {
						written[st.Field(fa.Field).Name()] = true
					}
				}
			}
			// whole-struct copy *new = *old assigns everything
			for _, ref := range *a.Referrers() {
				if s, ok := ref.(*ssa.Store); ok && s.Addr == ssa.Value(a) {
					for i := 0; i < st.NumFields(); i++ {
						written[st.Field(i).Name()] = true
					}
				}
			}
		}
		for i := 0; i < st.NumFields(); i++ {
			f := st.Field(i).Name()
			key := fmt.Sprintf("%s field=%s", fname(fn), f)
			if why, ok := cloneExempt[key]; ok {
				r.OK(key, e.pos(fn.Pos()), "exempt: "+why)
				continue
			}
			r.Check(written[f], key, e.pos(fn.Pos()), "assigned in the clone", fmt.Sprintf("the clone does not assign %s.%s: every request derived from it (each dispatched sub-problem) carries the zero value instead of the parent's", named.Obj().Name(), f))
		}
	}
}

package main

// Swapped same-typed arguments in configuration wiring.
//
// Several properties depend on a setting reaching the component under its own meaning (the iterator-cache TTL
// as the controller's look-back window, the per-batch limit as the limit and not as the concurrency).  Such wiring is
// positional: two arguments of the same type, or two single-argument option constructors in one option list.  The rule
// compares the names on both sides — parameter (or option) name against the name of the field/variable passed — and
// reports a pair only when exchanging the two values makes BOTH slots match strictly better than they do now.  It
// never reports on the strength of one poor match alone.

import (
	"fmt"
	"go/ast"
	"go/types"
	"strings"
	"unicode"
)

func camelTokens(s string) map[string]bool {
	out := map[string]bool{}
	var cur []rune
	flush := func() {
		if len(cur) > 0 {
			t := strings.ToLower(string(cur))
			if t != "with" && t != "get" && t != "the" {
				out[t] = true
			}
			cur = nil
		}
	}
	rs := []rune(s)
	for i, r := range rs {
		if r == '_' || r == '.' {
			flush()
			continue
		}
		if unicode.IsUpper(r) && i > 0 && (unicode.IsLower(rs[i-1]) || (i+1 < len(rs) && unicode.IsLower(rs[i+1]))) {
			flush()
		}
		cur = append(cur, r)
	}
	flush()
	return out
}

func nameSim(a, b string) float64 {
	ta, tb := camelTokens(a), camelTokens(b)
	if len(ta) == 0 || len(tb) == 0 {
		return 0
	}
	inter := 0
	for t := range ta {
		if tb[t] {
			inter++
		}
	}
	union := len(ta) + len(tb) - inter
	return float64(inter) / float64(union)
}

// valueName: the last selector / identifier of an argument expression ("settings.CheckQueryCacheTTL" -> that field).
func valueName(x ast.Expr) string {
	switch v := x.(type) {
	case *ast.Ident:
		return v.Name
	case *ast.SelectorExpr:
		return v.Sel.Name
	case *ast.CallExpr:
		if len(v.Args) == 0 { // getter
			return valueName(v.Fun)
		}
		if len(v.Args) == 1 { // conversion int(x)
			if _, ok := v.Fun.(*ast.Ident); ok {
				return valueName(v.Args[0])
			}
		}
	case *ast.ParenExpr:
		return valueName(v.X)
	case *ast.StarExpr:
		return valueName(v.X)
	}
	return ""
}

type wiringSlot struct {
	slot, value string
	typ         types.Type
}

func ruleSwappedWiring(e *Engine, r *Reporter, pkgs []string, floor int) {
	r.Rule("wiring-not-swapped", "in configuration wiring no two same-typed arguments (or single-argument options of one option list) are passed in each other's place: there is no pair for which exchanging the two values makes neither parameter/option name match its value worse and at least one strictly better", floor)
	n := 0
	for _, p := range e.modulePackages(false) {
		in := false
		for _, x := range pkgs {
			if short(p.PkgPath) == x || strings.HasPrefix(short(p.PkgPath), x+"/") {
				in = true
			}
		}
		if !in {
			continue
		}
		for _, f := range p.Syntax {
			ord := map[string]int{}
			ast.Inspect(f, func(nd ast.Node) bool {
				call, ok := nd.(*ast.CallExpr)
				if !ok {
					return true
				}
				sig, ok := p.TypesInfo.TypeOf(call.Fun).(*types.Signature)
				if !ok {
					return true
				}
				var slots []wiringSlot
				for i, a := range call.Args {
					// option constructor With…(value)
					if oc, ok := a.(*ast.CallExpr); ok && len(oc.Args) == 1 {
						fnName := valueName(oc.Fun)
						if strings.HasPrefix(fnName, "With") {
							if vn := valueName(oc.Args[0]); vn != "" {
								slots = append(slots, wiringSlot{fnName, vn, p.TypesInfo.TypeOf(oc.Args[0])})
							}
							continue
						}
					}
					if i >= sig.Params().Len() || (sig.Variadic() && i >= sig.Params().Len()-1) {
						continue
					}
					pn := sig.Params().At(i).Name()
					vn := valueName(a)
					if pn == "" || pn == "_" || vn == "" {
						continue
					}
					slots = append(slots, wiringSlot{pn, vn, p.TypesInfo.TypeOf(a)})
				}
				if len(slots) < 2 {
					return true
				}
				fd := funcDeclName(e.enclosingFuncDecl(p, call.Pos()))
				callee := valueName(call.Fun)
				for i := 0; i < len(slots); i++ {
					for j := i + 1; j < len(slots); j++ {
						a, b := slots[i], slots[j]
						if a.typ == nil || b.typ == nil || !types.Identical(a.typ, b.typ) || a.value == b.value {
							continue
						}
						// only informative names: each slot must share a token with at least one of the two values
						now1, now2 := nameSim(a.slot, a.value), nameSim(b.slot, b.value)
						sw1, sw2 := nameSim(a.slot, b.value), nameSim(b.slot, a.value)
						if (now1 == 0 && sw1 == 0) || (now2 == 0 && sw2 == 0) {
							continue // a slot whose name says nothing about either value cannot arbitrate
						}
						n++
						k := fmt.Sprintf("%s.%s | %s(%s,%s)", short(p.PkgPath), fd, callee, a.slot, b.slot)
						key := fmt.Sprintf("%s #%d", k, ord[k])
						ord[k]++
						swapped := sw1 >= now1 && sw2 >= now2 && sw1+sw2 > now1+now2
						r.Check(!swapped, key, e.pos(call.Pos()), fmt.Sprintf("%s<-%s, %s<-%s", a.slot, a.value, b.slot, b.value), fmt.Sprintf("`%s` receives `%s` and `%s` receives `%s`; exchanged, both names match better (%.2f→%.2f and %.2f→%.2f): the two settings act in each other's place", a.slot, a.value, b.slot, b.value, now1, sw1, now2, sw2))
					}
				}
				return true
			})
		}
	}
	if n == 0 {
		blind("wiring-not-swapped: no same-typed argument pair with informative names found")
	}
}

package main

// C05: soundness skeleton of ListObjects.

import (
	"fmt"
	"go/types"
	"strings"

	"golang.org/x/tools/go/ssa"
)

// boolDependsOn: v is p, or a disjunction/phi one of whose inputs (or controlling conditions) is p.
func boolDependsOn(v ssa.Value, p ssa.Value, seen map[ssa.Value]bool) bool {
	v = unwrap(v)
	if v == nil || seen[v] {
		return false
	}
	seen[v] = true
	if v == p {
		return true
	}
	switch x := v.(type) {
	case *ssa.Phi:
		for i, ed := range x.Edges {
			if boolDependsOn(ed, p, seen) {
				return true
			}
			// the edge is taken under a condition that is p  (a || b  ==  if a {true} else {b})
			pred := x.Block().Preds[i]
			for q := pred; q != nil; q = q.Idom() {
				if len(q.Instrs) == 0 {
					break
				}
				if ifi, ok := q.Instrs[len(q.Instrs)-1].(*ssa.If); ok && boolDependsOn(ifi.Cond, p, map[ssa.Value]bool{}) {
					if c, isC := ed.(*ssa.Const); isC && c.Value != nil {
						return true
					}
				}
				if q == x.Block().Idom() {
					break
				}
			}
		}
	case *ssa.BinOp:
		return boolDependsOn(x.X, p, seen) || boolDependsOn(x.Y, p, seen)
	case *ssa.UnOp:
		// loads of a captured/spilled variable
		for _, st := range storesTo(x.X) {
			if boolDependsOn(st.Val, p, seen) {
				return true
			}
		}
		return boolDependsOn(x.X, p, seen)
	case *ssa.FreeVar:
		// captured parameter of the enclosing function
		if pp, ok := p.(*ssa.Parameter); ok && x.Name() == pp.Name() {
			return true
		}
	case *ssa.Alloc:
		for _, st := range storesTo(x) {
			if boolDependsOn(st.Val, p, seen) {
				return true
			}
		}
	}
	return false
}

func singleBoolParam(fn *ssa.Function) (int, *ssa.Parameter) {
	idx, n := -1, 0
	var p *ssa.Parameter
	for i, q := range fn.Params {
		if b, ok := q.Type().Underlying().(*types.Basic); ok && b.Kind() == types.Bool {
			idx, p = i, q
			n++
		}
	}
	if n != 1 {
		return -1, nil
	}
	return idx, p
}

func ruleFurtherEvalSticky(e *Engine, r *Reporter) {
	r.Rule("further-eval-flag-sticky", "in the classic reverse expansion the 'an intersection or exclusion lies on the path' flag is only ever raised along a path: every call that hands the flag on passes a value that depends on the caller's own flag (flag || edge flag), so a candidate found below an intersection/exclusion is always marked RequiresFurtherEval and confirmed by Check", 6)
	tsc := e.candidateGate()
	role := map[*ssa.Function]int{}
	if i, _ := singleBoolParam(tsc); i >= 0 {
		role[tsc] = i
	} else {
		blind("further-eval-flag: trySendCandidate has no single bool parameter")
	}
	// role functions: same package, exactly one bool parameter, reach trySendCandidate
	for _, fn := range e.Fns {
		if fn.Parent() != nil || short(pkgOf(fn)) != "pkg/server/commands/reverseexpand" {
			continue
		}
		i, _ := singleBoolParam(fn)
		if i < 0 {
			continue
		}
		if ok, _ := e.Reaches(fn, func(g *ssa.Function) bool { return g == tsc }, func(g *ssa.Function) bool { return short(pkgOf(g)) == "pkg/server/commands/reverseexpand" }); ok {
			role[fn] = i
		}
	}
	for fn, pi := range role {
		if fn == tsc {
			continue
		}
		p := fn.Params[pi]
		for _, g := range withClosures(fn) {
			for _, b := range g.Blocks {
				for _, in := range b.Instrs {
					c, ok := in.(ssa.CallInstruction)
					if !ok {
						continue
					}
					callee := staticCallee(c)
					if callee == nil {
						continue
					}
					cj, isRole := role[callee]
					if !isRole || cj >= len(c.Common().Args) {
						continue
					}
					arg := c.Common().Args[cj]
					key := fmt.Sprintf("%s -> %s #%d", fname(fn), shortFuncName(callee), ordinalIn(fn, c))
					if bv, isC := constBool(arg); isC && bv {
						r.OK(key, e.instrPos(in), "raised to true")
						continue
					}
					dep := boolDependsOn(arg, p, map[ssa.Value]bool{})
					r.Check(dep, key, e.instrPos(in), "flag passed on depends on the caller's flag", "the further-evaluation flag handed to "+shortFuncName(callee)+" ("+describe_(arg)+") does not depend on the caller's own flag: an intersection/exclusion seen earlier on the path is forgotten and candidates are returned without the confirming Check")
				}
			}
		}
	}
	// trySendCandidate: flag true => RequiresFurtherEvalStatus, and the send is behind a first-time LoadOrStore
	r.Rule("candidate-gate", "trySendCandidate marks a candidate RequiresFurtherEvalStatus whenever the flag is set and sends it only on the first LoadOrStore of the object (de-duplication); trySendObject is the only producer of ListObjectsResult objects", 3)
	var send ssa.Instruction
	eachInstr(tsc, false, func(in ssa.Instruction) {
		if c, ok := in.(ssa.CallInstruction); ok {
			if o := calleeObj(c); o != nil && o.Name() == "TrySendThroughChannel" {
				send = in
			}
		}
	})
	if send == nil {
		blind("candidate-gate: send not found in trySendCandidate")
	}
	g, _ := mustPass(tsc, send, cutSpec{edge: func(f Fact) bool {
		return f.Kind == "bool" && !f.Positive && strings.Contains(describe_(f.X), "LoadOrStore(")
	}})
	r.Check(g, fname(tsc)+" | send behind first-time LoadOrStore", e.instrPos(send), "each object is sent at most once", "a candidate can be sent although it was already recorded (duplicates in the result)")
	// status: the literal's ResultStatus is a phi(NoFurtherEval, RequiresFurtherEval under flag)
	_, fp := singleBoolParam(tsc)
	statusOK := false
	eachInstr(tsc, false, func(in ssa.Instruction) {
		st, ok := in.(*ssa.Store)
		if !ok {
			return
		}
		fa, ok := st.Addr.(*ssa.FieldAddr)
		if !ok || fieldName(fa.X.Type(), fa.Field) != "ResultStatus" {
			return
		}
		if boolDependsOn(st.Val, fp, map[ssa.Value]bool{}) {
			statusOK = true
		}
	})
	r.Check(statusOK, fname(tsc)+" | flag => RequiresFurtherEvalStatus", e.pos(tsc.Pos()), "status derives from the flag", "the candidate status no longer derives from the further-evaluation flag")
	// who constructs ListObjectsResult
	producers := map[string]bool{}
	var where string
	for _, p := range e.modulePackages(false) {
		for _, f := range p.Syntax {
			astInspectLits(f, func(lit *astCompositeLit) {
				t := p.TypesInfo.TypeOf(lit.node)
				if t == nil || typeBaseName(derefType(t)) != "ListObjectsResult" {
					return
				}
				hasObj := false
				for _, el := range lit.node.Elts {
					if kv, ok := el.(*astKeyValueExpr); ok {
						if id, ok := kv.Key.(*astIdent); ok && id.Name == "ObjectID" {
							hasObj = true
						}
					}
				}
				if !hasObj {
					return
				}
				fd := short(p.PkgPath) + "." + funcDeclName(e.enclosingFuncDecl(p, lit.node.Pos()))
				producers[fd] = true
				where = fd
			})
		}
	}
	r.Check(len(producers) == 1, "ListObjectsResult{ObjectID} has a single producer", "", "single counted gate: "+where, fmt.Sprintf("object results are produced in %d places %v: a producer beside the counting gate bypasses the result-limit counting", len(producers), keysOf(producers)))
}

// ruleObjectsConfirmedByCheck: in ListObjectsQuery.evaluate a candidate that requires further
// evaluation is sent only behind Allowed of a Check built from the request's own inputs.
func ruleObjectsConfirmedByCheck(e *Engine, r *Reporter) {
	r.Rule("further-eval-confirmed-by-check", "ListObjectsQuery.evaluate sends a candidate that requires further evaluation only when CheckCommand.Execute for that candidate returned Allowed, and that Check carries the request's relation, user, contextual tuples, context and consistency", 3)
	ev := e.Func("pkg/server/commands", "ListObjectsQuery.evaluate")
	tso := e.objectGate()
	n := 0
	for _, g := range withClosures(ev) {
		for _, b := range g.Blocks {
			for _, in := range b.Instrs {
				c, ok := in.(ssa.CallInstruction)
				if !ok || staticCallee(c) != tso {
					continue
				}
				n++
				// either this is the NoFurtherEval branch or it is behind resp.Allowed
				behindAllowed, _ := mustPass(g, in, cutSpec{edge: func(f Fact) bool {
					d := describe_(f.X)
					return (f.Kind == "bool" || f.Kind == "call") && f.Positive && (strings.HasSuffix(d, ".Allowed") || strings.HasSuffix(d, "GetAllowed()")) && strings.Contains(d, "Execute(")
				}})
				noFurther, _ := mustPass(g, in, cutSpec{edge: func(f Fact) bool {
					d := describeFact(f)
					return strings.Contains(d, "ResultStatus") && f.Kind == "eq"
				}})
				r.Check(behindAllowed || noFurther, fmt.Sprintf("%s | trySendObject #%d", fname(ev), n), e.instrPos(in), "behind Allowed of the confirming Check, or on the no-further-evaluation branch", "an object can be sent without either being marked as needing no further evaluation or having been confirmed by Check")
			}
		}
	}
	if n == 0 {
		blind("further-eval-confirmed: no trySendObject call in evaluate")
	}
	// the confirming Check's params literal
	okParams := false
	detail := ""
	eachInstr(ev, true, func(in ssa.Instruction) {
		c, ok := in.(ssa.CallInstruction)
		if !ok {
			return
		}
		o := calleeObj(c)
		if o == nil || o.Name() != "Execute" || len(c.Common().Args) < 2 {
			return
		}
		d := describe_(c.Common().Args[len(c.Common().Args)-1])
		if !strings.Contains(d, "CheckCommandParams{") {
			return
		}
		detail = d
		need := []string{"Consistency=", "Context=", "ContextualTuples=", "StoreID=", "TupleKey="}
		all := true
		for _, nd := range need {
			if !strings.Contains(d, nd) {
				all = false
			}
		}
		if all && strings.Contains(d, "GetRelation()") && strings.Contains(d, "GetUser()") {
			okParams = true
		}
	})
	r.Check(okParams, fname(ev)+" | confirming Check carries the request's inputs", e.pos(ev.Pos()), "relation, user, contextual tuples, context, consistency, store", "the confirming Check is not built from all of the request's inputs: "+detail)
}


// candidateGate: the reverse-expansion function that stamps a candidate's ResultStatus and sends it (found by role).
func (e *Engine) candidateGate() *ssa.Function {
	var found []*ssa.Function
	for _, fn := range e.Fns {
		if short(pkgOf(fn)) != "pkg/server/commands/reverseexpand" || fn.Parent() != nil {
			continue
		}
		stamps, sends := false, false
		eachInstr(fn, false, func(in ssa.Instruction) {
			if st, ok := in.(*ssa.Store); ok {
				if fa, ok := st.Addr.(*ssa.FieldAddr); ok && fieldName(fa.X.Type(), fa.Field) == "ResultStatus" {
					stamps = true
				}
			}
			if c, ok := in.(ssa.CallInstruction); ok {
				if o := calleeObj(c); o != nil && o.Name() == "TrySendThroughChannel" {
					sends = true
				}
			}
		})
		if i, _ := singleBoolParam(fn); stamps && sends && i >= 0 {
			found = append(found, fn)
		}
	}
	if len(found) != 1 {
		blind("candidate gate: expected one function stamping ResultStatus and sending the candidate, found %d", len(found))
	}
	return found[0]
}

// objectGate: the function that builds ListObjectsResult{ObjectID: …} (found by role).
func (e *Engine) objectGate() *ssa.Function {
	var found []*ssa.Function
	for _, fn := range e.Fns {
		if short(pkgOf(fn)) != "pkg/server/commands" {
			continue
		}
		builds := false
		eachInstr(fn, false, func(in ssa.Instruction) {
			if st, ok := in.(*ssa.Store); ok {
				if fa, ok := st.Addr.(*ssa.FieldAddr); ok && fieldName(fa.X.Type(), fa.Field) == "ObjectID" && typeBaseName(derefType(fa.X.Type())) == "ListObjectsResult" {
					builds = true
				}
			}
		})
		if builds {
			found = append(found, topLevel(fn))
		}
	}
	if len(found) == 0 {
		blind("object gate: no function builds ListObjectsResult{ObjectID}")
	}
	return found[0]
}

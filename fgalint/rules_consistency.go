package main

// C10: HIGHER_CONSISTENCY bypasses every answer cache, and the preference reaches every read.

import (
	"fmt"
	"go/constant"
	"go/types"
	"strings"

	"golang.org/x/tools/go/ssa"
)

var higherConsistency int64 = -1 // value of openfgav1.ConsistencyPreference_HIGHER_CONSISTENCY, resolved from the loaded program

func (e *Engine) resolveHigherConsistency() {
	c, ok := e.ExtObj("github.com/openfga/api/proto/openfga/v1", "ConsistencyPreference_HIGHER_CONSISTENCY").(*types.Const)
	if !ok {
		blind("ConsistencyPreference_HIGHER_CONSISTENCY is not a constant")
	}
	n, _ := constant.Int64Val(c.Val())
	higherConsistency = n
}

func isConsistencyType(t types.Type) bool {
	return typeBaseName(t) == "ConsistencyPreference"
}

// notHigherConsistency: the edge establishes  <consistency value> != HIGHER_CONSISTENCY.
func notHigherConsistency(f Fact) bool {
	if f.Kind != "eq" || f.Positive {
		return false
	}
	check := func(a, b ssa.Value) bool {
		c, ok := b.(*ssa.Const)
		if !ok || c.Value == nil || c.Value.Kind() != constant.Int || !isConsistencyType(a.Type()) {
			return false
		}
		n, _ := constant.Int64Val(c.Value)
		return n == higherConsistency
	}
	return check(f.X, f.Y) || check(f.Y, f.X)
}

// guardedUpTheCallChain: `at` is guarded by the cut in its function, or at its closure
// creation site, or at every static call site of its function (recursively).
func (e *Engine) guardedUpTheCallChain(at ssa.Instruction, cut cutSpec, depth int, seen map[*ssa.Function]bool) (bool, string) {
	fn := at.Parent()
	if ok, _ := mustPass(fn, at, cut); ok {
		return true, "guarded in " + fname(fn)
	}
	if why, ok := cacheGetExemptFuncs[fname(topLevel(fn))]; ok {
		return true, "reached from " + fname(topLevel(fn)) + ", exempt: " + why
	}
	if depth == 0 {
		return false, "unguarded (depth bound) in " + fname(fn)
	}
	if mc := e.parent[fn]; mc != nil {
		return e.guardedUpTheCallChain(mc, cut, depth-1, seen)
	}
	if seen[fn] {
		return true, "recursion"
	}
	seen[fn] = true
	defer delete(seen, fn)
	var sites []ssa.CallInstruction
	for _, c := range e.callers[canon(fn)] {
		if !isTestSupport(pkgOf(c.Parent())) {
			sites = append(sites, c)
		}
	}
	// function values count as unguardable references
	for _, ref := range e.refs[canon(fn)] {
		if _, isMC := ref.(*ssa.MakeClosure); isMC {
			continue
		}
		if !isTestSupport(pkgOf(ref.Parent())) {
			return false, "unguarded: " + fname(fn) + " escapes as a function value in " + fname(ref.Parent())
		}
	}
	if len(sites) == 0 {
		return false, "unguarded in " + fname(fn) + " (no static callers: reached dynamically)"
	}
	for _, s := range sites {
		if ok, why := e.guardedUpTheCallChain(s, cut, depth-1, seen); !ok {
			return false, why + " <- " + fname(fn)
		}
	}
	return true, fmt.Sprintf("guarded at all %d call sites of %s", len(sites), fname(fn))
}

// cacheGetExempt: InMemoryCache.Get callers that do not serve answers (one reason each).
var cacheGetExempt = map[string]string{
	"internal/modelgraph":      "weighted graph cached per immutable model id; not request data",
	"internal/cachecontroller": "the invalidation bookkeeping itself (changelog timestamps, in-progress markers)",
	"pkg/typesystem":           "typesystem cached per resolved immutable model id",
}

var cacheGetExemptFuncs = map[string]string{
	"(*pkg/storage/storagewrappers.cachedOpenFGADatastore).ReadAuthorizationModel": "authorization models are immutable once written",
	"(*pkg/storage/storagewrappers.CachingIterator).drainInBackground":              "only checks whether an entry already exists before overwriting; nothing is served from it",
	"(*pkg/storage/storagewrappers.cachedIterator).Stop":                           "existence/invalidation test before deciding to store; the looked-up entry is discarded, nothing is served from it",
}

func isInMemoryCacheGet(c ssa.CallInstruction) bool {
	cc := c.Common()
	if !cc.IsInvoke() || cc.Method.Name() != "Get" {
		return false
	}
	t := cc.Value.Type()
	if n, ok := t.(*types.Named); ok {
		return n.Obj().Name() == "InMemoryCache" && n.Obj().Pkg() != nil && n.Obj().Pkg().Path() == modPath+"/pkg/storage"
	}
	return false
}

func ruleConsistencyBypass(e *Engine, r *Reporter) {
	r.Rule("cache-bypass", "every read of an answer cache (InMemoryCache.Get, shared-iterator map) happens only where the request's consistency preference is known not to be HIGHER_CONSISTENCY — in the function itself or at every call site up the static call chain", 8)
	e.resolveHigherConsistency()
	cut := cutSpec{edge: notHigherConsistency}
	for _, fn := range e.Fns {
		if isTestSupport(pkgOf(fn)) {
			continue
		}
		top := topLevel(fn)
		for _, b := range fn.Blocks {
			for _, in := range b.Instrs {
				c, ok := in.(ssa.CallInstruction)
				if !ok || !isInMemoryCacheGet(c) {
					continue
				}
				key := fmt.Sprintf("%s | cache.Get #%d", fname(top), ordinalIn(top, in))
				if why, ok := cacheGetExempt[short(pkgOf(fn))]; ok {
					r.OK(key, e.instrPos(in), "exempt: "+why)
					continue
				}
				if why, ok := cacheGetExemptFuncs[fname(top)]; ok {
					r.OK(key, e.instrPos(in), "exempt: "+why)
					continue
				}
				ok2, why := e.guardedUpTheCallChain(in, cut, 6, map[*ssa.Function]bool{})
				r.Check(ok2, key, e.instrPos(in), why, "an answer cache is read on a path where the consistency preference may be HIGHER_CONSISTENCY: "+why)
			}
		}
	}
	// shared iterator map
	if sid := e.FuncOpt("pkg/storage/storagewrappers/sharediterator", "IteratorDatastore.Read"); sid != nil {
		for _, m := range []string{"Read", "ReadUsersetTuples", "ReadStartingWithUser"} {
			fn := e.Func("pkg/storage/storagewrappers/sharediterator", "IteratorDatastore."+m)
			n := 0
			okAll := true
			var bad ssa.Instruction
			eachInstr(fn, true, func(in ssa.Instruction) {
				fa, ok := in.(*ssa.FieldAddr)
				if !ok || fieldName(fa.X.Type(), fa.Field) != "internalStorage" {
					return
				}
				n++
				if ok, _ := e.guardedUpTheCallChain(in, cut, 2, map[*ssa.Function]bool{}); !ok {
					okAll = false
					bad = in
				}
			})
			pos := e.pos(fn.Pos())
			if bad != nil {
				pos = e.instrPos(bad)
			}
			if n == 0 {
				blind("cache-bypass: %s does not touch internalStorage", fname(fn))
			}
			r.Check(okAll, fname(fn)+" | shared-iterator storage", pos, fmt.Sprintf("%d accesses, all behind the consistency test", n),
				"the shared-iterator storage is consulted on a path where the preference may be HIGHER_CONSISTENCY")
		}
	}
}

// ruleBypassDelegates: on the HIGHER_CONSISTENCY branch the wrapper calls the wrapped reader's
// method of the same name with the caller's filter and options.
func ruleBypassDelegates(e *Engine, r *Reporter) {
	r.Rule("bypass-delegates", "each caching tuple-reader wrapper forwards the caller's own filter and options to the wrapped reader's method of the same name", 9)
	type w struct{ pkg, typ string }
	for _, x := range []w{{"pkg/storage/storagewrappers", "CachedDatastore"}, {"pkg/storage/storagewrappers", "CachedTupleReader"}, {"pkg/storage/storagewrappers/sharediterator", "IteratorDatastore"}} {
		for _, m := range []string{"Read", "ReadUsersetTuples", "ReadStartingWithUser"} {
			fn := e.Func(x.pkg, x.typ+"."+m)
			np := len(fn.Params)
			filterP, optsP := fn.Params[np-2], fn.Params[np-1]
			found, good := 0, 0
			eachInstr(fn, true, func(in ssa.Instruction) {
				c, ok := in.(ssa.CallInstruction)
				if !ok || !c.Common().IsInvoke() || c.Common().Method.Name() != m {
					return
				}
				found++
				args := c.Common().Args
				if len(args) < 4 {
					return
				}
				same := func(v ssa.Value, p *ssa.Parameter) bool {
					d := describe_(v)
					return d == paramName(p) || d == "free:"+p.Name()
				}
				if same(args[len(args)-2], filterP) && same(args[len(args)-1], optsP) {
					good++
				}
			})
			r.Check(found > 0 && found == good, fname(fn), e.pos(fn.Pos()), fmt.Sprintf("%d delegate calls pass filter and options unchanged", found),
				fmt.Sprintf("%d of %d delegate calls do not pass the caller's filter/options through", found-good, found))
		}
	}
}

// ruleConsistencyForwarded: every options value handed to a tuple reader outside the storage
// layer carries a consistency preference that is not a constant.
func ruleConsistencyForwarded(e *Engine, r *Reporter) {
	r.Rule("consistency-forwarded", "every options value passed to RelationshipTupleReader.{Read,ReadPage,ReadUserTuple,ReadUsersetTuples,ReadStartingWithUser} from the query engines carries the request's consistency preference (a non-constant value, or the caller's own options parameter)", 20)
	methods := map[string]bool{"Read": true, "ReadPage": true, "ReadUserTuple": true, "ReadUsersetTuples": true, "ReadStartingWithUser": true}
	rtr := e.Named("pkg/storage", "RelationshipTupleReader").Underlying().(*types.Interface)
	for _, fn := range e.Fns {
		p := short(pkgOf(fn))
		if isTestSupport(pkgOf(fn)) || strings.HasPrefix(p, "pkg/storage") || strings.HasPrefix(p, "cmd") {
			continue
		}
		top := topLevel(fn)
		for _, b := range fn.Blocks {
			for _, in := range b.Instrs {
				c, ok := in.(ssa.CallInstruction)
				if !ok || !c.Common().IsInvoke() || !methods[c.Common().Method.Name()] {
					continue
				}
				// the receiver's interface must include the reader method set
				it, ok := c.Common().Value.Type().Underlying().(*types.Interface)
				if !ok || !types.Implements(it, rtr) && !hasMethod(it, c.Common().Method.Name(), rtr) {
					continue
				}
				args := c.Common().Args
				if len(args) == 0 {
					continue
				}
				opt := args[len(args)-1]
				d := describe_(opt)
				if !strings.Contains(d, "Preference=") {
					// options taken out of a value a same-module helper built (query struct): look at what the helper returns
					root := opt
					for i := 0; i < 4; i++ {
						switch x := unwrap(root).(type) {
						case *ssa.Field:
							root = x.X
							continue
						case *ssa.UnOp:
							root = x.X
							continue
						case *ssa.FieldAddr:
							root = x.X
							continue
						case *ssa.Alloc:
							if sts := storesTo(x); len(sts) == 1 {
								root = sts[0].Val
								continue
							}
						}
						break
					}
					if dd := describeDeep(root); strings.Contains(dd, "Preference=") {
						d = dd
					}
				}
				key := fmt.Sprintf("%s | %s #%d", fname(top), c.Common().Method.Name(), ordinalIn(top, in))
				ok2 := false
				detail := d
				if i := strings.Index(d, "Preference="); i >= 0 {
					rest := d[i+len("Preference="):]
					// constant preference?
					if len(rest) > 0 && (rest[0] >= '0' && rest[0] <= '9') {
						ok2 = false
					} else {
						ok2 = true
					}
				} else if _, isParam := unwrap(opt).(*ssa.Parameter); isParam {
					ok2 = true
				} else if strings.HasPrefix(d, "arg") || strings.HasPrefix(d, "free:") || strings.HasPrefix(d, "recv.") {
					ok2 = true
				}
				r.Check(ok2, key, e.instrPos(in), "options: "+detail, "the read options do not carry the request's consistency preference (caches below would treat a HIGHER_CONSISTENCY request as cacheable): "+detail)
			}
		}
	}
}

func hasMethod(it *types.Interface, name string, ref *types.Interface) bool {
	for i := 0; i < it.NumMethods(); i++ {
		if it.Method(i).Name() == name {
			for j := 0; j < ref.NumMethods(); j++ {
				if ref.Method(j).Name() == name && types.Identical(ref.Method(j).Type(), it.Method(i).Type()) {
					return true
				}
			}
		}
	}
	return false
}

// rulePgPool: postgres read methods pick their pool through getPgxPool(options.Consistency.Preference).
func rulePgPool(e *Engine, r *Reporter) {
	r.Rule("pg-primary-on-higher", "postgres tuple reads run on the pool chosen by getPgxPool(<caller's options>.Consistency.Preference); getPgxPool returns the primary for HIGHER_CONSISTENCY", 5)
	e.resolveHigherConsistency()
	gp := e.Func("pkg/storage/postgres", "Datastore.getPgxPool")
	for _, m := range []string{"Read", "ReadPage", "ReadUserTuple", "ReadUsersetTuples", "ReadStartingWithUser"} {
		fn := e.Func("pkg/storage/postgres", "Datastore."+m)
		optsP := fn.Params[len(fn.Params)-1]
		ok := false
		detail := "no getPgxPool call"
		eachInstr(fn, true, func(in ssa.Instruction) {
			c, isCall := in.(ssa.CallInstruction)
			if !isCall || staticCallee(c) != gp {
				return
			}
			d := describe_(c.Common().Args[1])
			detail = d
			if d == paramName(optsP)+".Consistency.Preference" {
				ok = true
			}
		})
		if !ok {
			// the pool is selected in a same-package helper that receives the preference from this method
			eachInstr(fn, true, func(in ssa.Instruction) {
				via, isCall := in.(ssa.CallInstruction)
				if !isCall {
					return
				}
				h := staticCallee(via)
				if h == nil || len(h.Blocks) == 0 || pkgOf(h) != pkgOf(fn) || h == gp {
					return
				}
				eachInstr(h, true, func(in2 ssa.Instruction) {
					c, isCall := in2.(ssa.CallInstruction)
					if !isCall || staticCallee(c) != gp {
						return
					}
					d := describe_(atCaller(c.Common().Args[1], via))
					detail = d
					if d == paramName(optsP)+".Consistency.Preference" {
						ok = true
					}
				})
			})
		}
		r.Check(ok, fname(fn), e.pos(fn.Pos()), "pool = getPgxPool("+detail+")", "the pool is not selected from the caller's consistency preference: "+detail)
	}
	// getPgxPool: the secondary is returned only when preference != HIGHER_CONSISTENCY.  The selection may be
	// delegated to a same-package helper that receives the pools as arguments (one level).
	okAll := true
	n := 0
	var scan func(fn *ssa.Function, isSecondary func(ssa.Value) bool, depth int)
	scan = func(fn *ssa.Function, isSecondary func(ssa.Value) bool, depth int) {
		for _, rs := range returnSites(fn) {
			if len(rs.Results) != 1 {
				continue
			}
			res := rs.Results[0]
			if isSecondary(res) {
				n++
				if g, _ := mustPass(fn, rs.At, cutSpec{edge: notHigherConsistency}); !g {
					okAll = false
				}
				continue
			}
			if c, ok := unwrap(res).(*ssa.Call); ok && depth > 0 {
				h := staticCallee(c)
				if h == nil || len(h.Blocks) == 0 || pkgOf(h) != pkgOf(fn) {
					continue
				}
				// already behind the test at the call? then nothing to require of the helper
				if g, _ := mustPass(fn, rs.At, cutSpec{edge: notHigherConsistency}); g {
					continue
				}
				secIdx := map[int]bool{}
				for i, a := range c.Call.Args {
					if isSecondary(a) {
						secIdx[i] = true
					}
				}
				scan(h, func(v ssa.Value) bool {
					return derivesFrom(v, func(x ssa.Value) bool {
						p, ok := x.(*ssa.Parameter)
						if !ok {
							return false
						}
						for i, q := range h.Params {
							if q == p && secIdx[i] {
								return true
							}
						}
						return false
					}) || isSecondary(v)
				}, depth-1)
			}
		}
	}
	scan(gp, func(v ssa.Value) bool {
		// a load of the datastore's secondary-pool field (value identity, not text: a call that merely receives it is not it)
		return derivesFrom(v, func(x ssa.Value) bool {
			fa, ok := x.(*ssa.FieldAddr)
			return ok && strings.Contains(strings.ToLower(fieldName(fa.X.Type(), fa.Field)), "secondary")
		})
	}, 1)
	r.Check(okAll && n > 0, fname(gp)+" | secondary only when not HIGHER_CONSISTENCY", e.pos(gp.Pos()), fmt.Sprintf("%d returns of the secondary pool are behind the test", n),
		"the secondary (replica) pool can be returned for a HIGHER_CONSISTENCY read")
}

// ruleConsistencyInLiterals: every keyed composite literal of a request/params struct that has a
// field `Consistency openfgav1.ConsistencyPreference` sets it (from a non-constant expression).
func ruleConsistencyInLiterals(e *Engine, r *Reporter) {
	r.Rule("consistency-propagated", "every composite literal of a params/request struct with a `Consistency ConsistencyPreference` field sets that field from a non-constant expression, so child requests keep the caller's preference", 8)
	for _, p := range e.modulePackages(false) {
		for _, f := range p.Syntax {
			counts := map[string]int{}
			astInspectLits(f, func(lit *astCompositeLit) {
				t := p.TypesInfo.TypeOf(lit.node)
				if t == nil {
					return
				}
				if ptr, ok := t.Underlying().(*types.Pointer); ok {
					t = ptr.Elem()
				}
				st, ok := t.Underlying().(*types.Struct)
				if !ok {
					return
				}
				has := false
				for i := 0; i < st.NumFields(); i++ {
					if st.Field(i).Name() == "Consistency" && isConsistencyType(st.Field(i).Type()) {
						has = true
					}
				}
				if !has || len(lit.node.Elts) == 0 {
					return
				}
				decl := e.enclosingFuncDecl(p, lit.node.Pos())
				fd := funcDeclName(decl)
				if !hasConsistencySource(p.TypesInfo, decl) {
					return // nothing to inherit: the function receives no value that carries a consistency preference
				}
				tn := typeBaseName(t)
				k := fd + "|" + tn
				ord := counts[k]
				counts[k]++
				key := fmt.Sprintf("%s.%s | %s{…} #%d", short(p.PkgPath), fd, tn, ord)
				set, constant := false, false
				for _, el := range lit.node.Elts {
					kv, ok := el.(*astKeyValueExpr)
					if !ok {
						set = true // positional literal sets every field
						continue
					}
					if id, ok := kv.Key.(*astIdent); ok && id.Name == "Consistency" {
						set = true
						if tv, ok := p.TypesInfo.Types[kv.Value]; ok && tv.Value != nil {
							constant = true
						}
					}
				}
				r.Check(set && !constant, key, e.pos(lit.node.Pos()), "Consistency set from the request", "the literal builds a request/params value without carrying the consistency preference (defaults to UNSPECIFIED, so a HIGHER_CONSISTENCY request would be served from caches downstream)")
			})
		}
	}
}


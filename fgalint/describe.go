package main

// Structural, line-free descriptions of SSA values and of the conditions controlling a block.

import (
	"fmt"
	"go/token"
	"go/types"
	"sort"
	"strings"

	"golang.org/x/tools/go/ssa"
)

type describer struct {
	depth int
	seen  map[ssa.Value]bool
}

func describe_(v ssa.Value) string {
	d := &describer{seen: map[ssa.Value]bool{}}
	return d.val(v, 0)
}

func paramName(p *ssa.Parameter) string {
	fn := p.Parent()
	for i, q := range fn.Params {
		if q == p {
			if fn.Signature.Recv() != nil {
				if i == 0 {
					return "recv"
				}
				return fmt.Sprintf("arg%d", i-1)
			}
			return fmt.Sprintf("arg%d", i)
		}
	}
	return p.Name()
}

func shortFuncName(f *ssa.Function) string {
	if f == nil {
		return "?"
	}
	f = canon(f)
	name := f.Name()
	if recv := f.Signature.Recv(); recv != nil {
		return typeBaseName(recv.Type()) + "." + name
	}
	if f.Pkg != nil {
		return f.Pkg.Pkg.Name() + "." + name
	}
	return name
}

func (d *describer) val(v ssa.Value, depth int) string {
	if v == nil {
		return "nil"
	}
	if depth > 12 {
		return "…"
	}
	switch x := v.(type) {
	case *ssa.Parameter:
		return paramName(x)
	case *ssa.FreeVar:
		// resolve through the closure binding when unique
		return "free:" + x.Name()
	case *ssa.Const:
		if x.Value == nil {
			return "nil"
		}
		return x.Value.ExactString()
	case *ssa.Global:
		return x.Pkg.Pkg.Name() + "." + x.Name()
	case *ssa.Function:
		return shortFuncName(x)
	case *ssa.Builtin:
		return x.Name()
	case *ssa.FieldAddr:
		return d.val(x.X, depth+1) + "." + fieldName(x.X.Type(), x.Field)
	case *ssa.Field:
		return d.val(x.X, depth+1) + "." + fieldName(x.X.Type(), x.Field)
	case *ssa.UnOp:
		if x.Op == token.MUL {
			return d.val(x.X, depth+1)
		}
		return x.Op.String() + d.val(x.X, depth+1)
	case *ssa.Alloc:
		sts := storesTo(x)
		if len(sts) == 1 {
			return d.val(sts[0].Val, depth+1)
		}
		if len(sts) > 1 {
			if d.seen[x] {
				return "loop"
			}
			d.seen[x] = true
			var parts []string
			for _, s := range sts {
				parts = append(parts, d.val(s.Val, depth+1))
			}
			parts = uniq(parts)
			delete(d.seen, x)
			if len(parts) == 1 {
				return parts[0]
			}
			return "var(" + strings.Join(parts, "|") + ")"
		}
		// composite literal: render the fields stored through FieldAddr
		if x.Referrers() != nil {
			var parts []string
			for _, r := range *x.Referrers() {
				fa, ok := r.(*ssa.FieldAddr)
				if !ok || fa.Referrers() == nil {
					continue
				}
				for _, rr := range *fa.Referrers() {
					if st, ok := rr.(*ssa.Store); ok && st.Addr == fa {
						if d.seen[x] {
							continue
						}
						d.seen[x] = true
						parts = append(parts, fieldName(x.Type(), fa.Field)+"="+d.val(st.Val, depth+1))
						delete(d.seen, x)
					}
				}
			}
			if len(parts) > 0 {
				sort.Strings(parts)
				return typeBaseName(x.Type()) + "{" + strings.Join(parts, ",") + "}"
			}
		}
		return "local:" + typeBaseName(x.Type())
	case *ssa.Call:
		cc := x.Common()
		var args []string
		for _, a := range cc.Args {
			args = append(args, d.val(a, depth+1))
		}
		if cc.IsInvoke() {
			return d.val(cc.Value, depth+1) + "." + cc.Method.Name() + "(" + strings.Join(args, ",") + ")"
		}
		if f := cc.StaticCallee(); f != nil {
			if f.Signature.Recv() != nil && len(args) > 0 {
				return args[0] + "." + f.Name() + "(" + strings.Join(args[1:], ",") + ")"
			}
			return shortFuncName(f) + "(" + strings.Join(args, ",") + ")"
		}
		return d.val(cc.Value, depth+1) + "(" + strings.Join(args, ",") + ")"
	case *ssa.Extract:
		return d.val(x.Tuple, depth+1) + fmt.Sprintf("#%d", x.Index)
	case *ssa.Phi:
		if d.seen[x] {
			return "loop"
		}
		d.seen[x] = true
		var parts []string
		for _, e := range x.Edges {
			parts = append(parts, d.val(e, depth+1))
		}
		delete(d.seen, x)
		parts = uniq(parts)
		if len(parts) == 1 {
			return parts[0]
		}
		return "phi(" + strings.Join(parts, "|") + ")"
	case *ssa.BinOp:
		return "(" + d.val(x.X, depth+1) + x.Op.String() + d.val(x.Y, depth+1) + ")"
	case *ssa.Convert:
		return d.val(x.X, depth+1)
	case *ssa.ChangeType:
		return d.val(x.X, depth+1)
	case *ssa.ChangeInterface:
		return d.val(x.X, depth+1)
	case *ssa.MakeInterface:
		return d.val(x.X, depth+1)
	case *ssa.TypeAssert:
		return d.val(x.X, depth+1) + ".(" + typeBaseName(x.AssertedType) + ")"
	case *ssa.Slice:
		if elems, ok := sliceLitElems(x); ok {
			var parts []string
			for _, el := range elems {
				parts = append(parts, d.val(el, depth+1))
			}
			return "[" + strings.Join(parts, ",") + "]"
		}
		return d.val(x.X, depth+1) + "[:]"
	case *ssa.IndexAddr:
		return d.val(x.X, depth+1) + "[" + d.val(x.Index, depth+1) + "]"
	case *ssa.Index:
		return d.val(x.X, depth+1) + "[" + d.val(x.Index, depth+1) + "]"
	case *ssa.Lookup:
		return d.val(x.X, depth+1) + "[" + d.val(x.Index, depth+1) + "]"
	case *ssa.MakeMap:
		return "map:" + typeBaseName(x.Type())
	case *ssa.MakeSlice:
		return "slice:" + typeBaseName(x.Type())
	case *ssa.MakeClosure:
		return "closure"
	case *ssa.Next:
		return "next(" + d.val(x.Iter, depth+1) + ")"
	case *ssa.Range:
		return "range(" + d.val(x.X, depth+1) + ")"
	}
	return fmt.Sprintf("%T", v)
}

func uniq(s []string) []string {
	sort.Strings(s)
	var out []string
	for i, x := range s {
		if i == 0 || x != s[i-1] {
			out = append(out, x)
		}
	}
	return out
}

// describeFact renders an edge fact in a canonical form. Normalisations:
//
//	X != ""            -> nonempty(X)
//	len(X) > 0         -> nonempty(X)
//	X != nil           -> nonnil(X)
func describeFact(f Fact) string {
	neg := func(s string, pos bool) string {
		if pos {
			return s
		}
		return "!" + s
	}
	switch f.Kind {
	case "nil":
		return neg("nonnil("+describe_(f.X)+")", !f.Positive)
	case "eq":
		if s, ok := constString(f.Y); ok && s == "" {
			return neg("nonempty("+describe_(f.X)+")", !f.Positive)
		}
		if n, ok := constInt(f.Y); ok && n == 0 {
			if c, ok := f.X.(*ssa.Call); ok {
				if b, ok := c.Call.Value.(*ssa.Builtin); ok && b.Name() == "len" {
					return neg("nonempty("+describe_(c.Call.Args[0])+")", !f.Positive)
				}
			}
		}
		return neg("("+describe_(f.X)+"=="+describe_(f.Y)+")", f.Positive)
	case "call":
		return neg(describe_(f.X), f.Positive)
	case ">", "<", ">=", "<=":
		// len(X) > 0  / 0 < len(X)
		if f.Kind == ">" {
			if n, ok := constInt(f.Y); ok && n == 0 {
				if c, ok := f.X.(*ssa.Call); ok {
					if b, ok := c.Call.Value.(*ssa.Builtin); ok && b.Name() == "len" {
						return neg("nonempty("+describe_(c.Call.Args[0])+")", f.Positive)
					}
					return neg("positive("+describe_(f.X)+")", f.Positive)
				}
				return neg("positive("+describe_(f.X)+")", f.Positive)
			}
		}
		return neg("("+describe_(f.X)+f.Kind+describe_(f.Y)+")", f.Positive)
	}
	return neg(describe_(f.X), f.Positive)
}

// controlFacts returns the facts that hold whenever block b executes: for every If whose one
// outgoing edge must be taken to reach b.
func controlFacts(b *ssa.BasicBlock) []Fact {
	fn := b.Parent()
	var out []Fact
	for _, a := range fn.Blocks {
		if len(a.Instrs) == 0 {
			continue
		}
		if _, ok := a.Instrs[len(a.Instrs)-1].(*ssa.If); !ok {
			continue
		}
		if !a.Dominates(b) || a == b {
			continue
		}
		for si := range a.Succs {
			// does edge (a -> succ si) dominate b?  remove it and test reachability of b
			if edgeDominates(a, si, b) {
				out = append(out, edgeFacts(a, si)...)
			}
		}
	}
	return out
}

// edgeDominates: every path from entry to target uses edge a->a.Succs[si].
func edgeDominates(a *ssa.BasicBlock, si int, target *ssa.BasicBlock) bool {
	fn := a.Parent()
	seen := map[*ssa.BasicBlock]bool{fn.Blocks[0]: true}
	work := []*ssa.BasicBlock{fn.Blocks[0]}
	if fn.Blocks[0] == target {
		return false
	}
	for len(work) > 0 {
		x := work[len(work)-1]
		work = work[:len(work)-1]
		for i, s := range x.Succs {
			if x == a && i == si {
				continue
			}
			// both successors may be the same block
			if seen[s] {
				continue
			}
			if s == target {
				return false
			}
			seen[s] = true
			work = append(work, s)
		}
	}
	return true
}

// describeGuards lists the conditions controlling b, without loop-continuation tests and
// without error checks (both are control noise for "under which shape is this applied").
func describeGuards(b *ssa.BasicBlock) []string {
	var out []string
	for _, f := range controlFacts(b) {
		if f.Kind == "nil" && f.X != nil && isErrorType(f.X.Type()) {
			continue
		}
		// loop-continuation tests (the header's own `i < len(xs)` / `ok` of a map or channel range) are noise; a test on a
		// value that merely derives from the loop variable is a real guard and is kept
		if f.If != nil && loopHeader(f.If.Block()) == f.If.Block() {
			continue
		}
		t := describeFact(f)
		out = append(out, t)
	}
	return uniq(out)
}

// sliceLitElems: if v is a slice built from a fixed array literal (varargs or composite
// literal), return the stored element values in index order.
func sliceLitElems(v ssa.Value) ([]ssa.Value, bool) {
	v = unwrap(v)
	sl, ok := v.(*ssa.Slice)
	if !ok {
		return nil, false
	}
	al, ok := sl.X.(*ssa.Alloc)
	if !ok {
		return nil, false
	}
	arr, ok := al.Type().Underlying().(*types.Pointer).Elem().Underlying().(*types.Array)
	if !ok {
		return nil, false
	}
	elems := make([]ssa.Value, arr.Len())
	// an array assigned as a whole (e.g. `h := sha256.Sum256(x); h[:]`) is not an element literal
	for _, r := range *al.Referrers() {
		if st, ok := r.(*ssa.Store); ok && st.Addr == ssa.Value(al) {
			return nil, false
		}
	}
	for _, r := range *al.Referrers() {
		ia, ok := r.(*ssa.IndexAddr)
		if !ok {
			continue
		}
		idx, ok := constInt(ia.Index)
		if !ok || idx < 0 || idx >= arr.Len() {
			continue
		}
		for _, rr := range *ia.Referrers() {
			if st, ok := rr.(*ssa.Store); ok && st.Addr == ia {
				elems[idx] = st.Val
			}
		}
	}
	return elems, true
}

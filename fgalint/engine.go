package main

// Engine: loads /repo's current working tree, type-checks it, builds SSA for the
// module's own packages and offers the resolved-program queries the rules are written in.
// Nothing of /repo is executed.

import (
	"fmt"
	"go/ast"
	"go/token"
	"go/types"
	"os"
	"path/filepath"
	"sort"
	"strings"

	"golang.org/x/tools/go/packages"
	"golang.org/x/tools/go/ssa"
	"golang.org/x/tools/go/ssa/ssautil"
)

const modPath = "github.com/openfga/openfga"

// testSupport lists non-_test packages that only serve tests; they are excluded from
// who-may-call / who-may-construct rules (frozen list, DESIGN §1 A4).
var testSupport = []string{"tests", "pkg/server/test", "pkg/storage/test", "pkg/testutils", "pkg/testfixtures", "internal/mocks", "internal/test"}

type Engine struct {
	Repo    string
	Fset    *token.FileSet
	Pkgs    []*packages.Package
	ByPath  map[string]*packages.Package
	Prog    *ssa.Program
	SSAPkg  map[string]*ssa.Package
	Fns     []*ssa.Function // every function of the module: declared, methods, anonymous, instantiations
	fnByObj map[*types.Func]*ssa.Function
	astOf   map[*ssa.Function]ast.Node
	parent  map[*ssa.Function]*ssa.MakeClosure // closure creation sites
	callers map[*ssa.Function][]ssa.CallInstruction
	invokes map[*types.Func][]ssa.CallInstruction // interface method -> invoke sites
	refs    map[*ssa.Function][]ssa.Instruction   // non-call references to a function value
	impls   map[*types.Func][]*ssa.Function       // interface method -> concrete module implementations
	env     []string
}

type blindError struct{ msg string }

func (b blindError) Error() string { return b.msg }

// blind aborts the run with "no verdict": an anchor does not resolve or a rule cannot decide.
func blind(format string, a ...any) { panic(blindError{fmt.Sprintf(format, a...)}) }

func short(p string) string {
	p = strings.TrimPrefix(p, modPath+"/")
	return p
}

func isTestSupport(pkgPath string) bool {
	s := short(pkgPath)
	for _, t := range testSupport {
		if s == t || strings.HasPrefix(s, t+"/") {
			return true
		}
	}
	return false
}

func Load(repo string, extraEnv []string, overlay map[string][]byte) (*Engine, error) {
	env := append(os.Environ(), "GOWORK=off", "GOFLAGS=-mod=mod", "GOPROXY=off", "GOTOOLCHAIN=local")
	// the system go (1.23) cannot load /repo (go.mod needs >= 1.25.7): put the pre-installed
	// go1.26.8 first for go/packages' `go list` driver.
	if _, err := os.Stat("/opt/veriftools/go1.26.8/bin/go"); err == nil {
		if !strings.HasPrefix(os.Getenv("PATH"), "/opt/veriftools/go1.26.8/bin:") {
			os.Setenv("PATH", "/opt/veriftools/go1.26.8/bin:"+os.Getenv("PATH")) // exec.LookPath uses the process PATH
		}
		env = append(env, "PATH="+os.Getenv("PATH"))
	}
	env = append(env, extraEnv...)
	cfg := &packages.Config{
		Mode:    packages.LoadAllSyntax,
		Dir:     repo,
		Tests:   false,
		Env:     env,
		Overlay: overlay,
	}
	pkgs, err := packages.Load(cfg, "./...")
	if err != nil {
		return nil, fmt.Errorf("load: %w", err)
	}
	if len(pkgs) == 0 {
		return nil, fmt.Errorf("load: zero packages")
	}
	var errs []string
	packages.Visit(pkgs, nil, func(p *packages.Package) {
		for _, e := range p.Errors {
			errs = append(errs, e.Error())
		}
	})
	if len(errs) > 0 {
		if len(errs) > 10 {
			errs = errs[:10]
		}
		return nil, fmt.Errorf("load: package errors:\n  %s", strings.Join(errs, "\n  "))
	}
	e := &Engine{Repo: repo, Pkgs: pkgs, ByPath: map[string]*packages.Package{}, SSAPkg: map[string]*ssa.Package{}, env: env}
	e.Fset = pkgs[0].Fset
	prog, spkgs := ssautil.Packages(pkgs, ssa.InstantiateGenerics)
	e.Prog = prog
	for i, p := range pkgs {
		e.ByPath[p.PkgPath] = p
		if spkgs[i] == nil {
			return nil, fmt.Errorf("no SSA package for %s", p.PkgPath)
		}
		e.SSAPkg[p.PkgPath] = spkgs[i]
	}
	prog.Build()
	e.index()
	return e, nil
}

func (e *Engine) inModule(fn *ssa.Function) bool {
	if fn == nil {
		return false
	}
	if fn.Pkg != nil {
		_, ok := e.SSAPkg[fn.Pkg.Pkg.Path()]
		return ok
	}
	if o := fn.Origin(); o != nil && o.Pkg != nil {
		_, ok := e.SSAPkg[o.Pkg.Pkg.Path()]
		return ok
	}
	if fn.Parent() != nil {
		return e.inModule(fn.Parent())
	}
	return false
}

func (e *Engine) index() {
	e.fnByObj = map[*types.Func]*ssa.Function{}
	e.astOf = map[*ssa.Function]ast.Node{}
	e.parent = map[*ssa.Function]*ssa.MakeClosure{}
	e.callers = map[*ssa.Function][]ssa.CallInstruction{}
	e.invokes = map[*types.Func][]ssa.CallInstruction{}
	e.refs = map[*ssa.Function][]ssa.Instruction{}
	e.impls = map[*types.Func][]*ssa.Function{}
	all := ssautil.AllFunctions(e.Prog)
	for fn := range all {
		if !e.inModule(fn) || fn.Blocks == nil {
			continue
		}
		e.Fns = append(e.Fns, fn)
	}
	e.computeRenames()
	sort.Slice(e.Fns, func(i, j int) bool {
		a, b := e.Fns[i], e.Fns[j]
		if a.Pos() != b.Pos() {
			return a.Pos() < b.Pos()
		}
		return a.String() < b.String()
	})
	for _, fn := range e.Fns {
		if o, ok := fn.Object().(*types.Func); ok && fn.Origin() == nil {
			e.fnByObj[o] = fn
		}
		if fn.Syntax() != nil {
			e.astOf[fn] = fn.Syntax()
		}
		for _, b := range fn.Blocks {
			for _, in := range b.Instrs {
				switch x := in.(type) {
				case *ssa.MakeClosure:
					if f, ok := x.Fn.(*ssa.Function); ok {
						e.parent[f] = x
					}
				}
				if c, ok := in.(ssa.CallInstruction); ok {
					cc := c.Common()
					if cc.IsInvoke() {
						e.invokes[cc.Method] = append(e.invokes[cc.Method], c)
					} else if callee := cc.StaticCallee(); callee != nil {
						e.callers[canon(callee)] = append(e.callers[canon(callee)], c)
					}
				}
				// non-call references to functions
				for i, op := range in.Operands(nil) {
					if op == nil || *op == nil {
						continue
					}
					f, ok := (*op).(*ssa.Function)
					if !ok {
						continue
					}
					if c, isCall := in.(ssa.CallInstruction); isCall && i == 0 && c.Common().Value == f {
						continue
					}
					e.refs[canon(f)] = append(e.refs[canon(f)], in)
				}
			}
		}
	}
}

// canon maps generic instantiations to their origin so that call sites are keyed once.
func canon(fn *ssa.Function) *ssa.Function {
	if o := fn.Origin(); o != nil {
		return o
	}
	return fn
}

// Pkg returns the package with the module-relative path, or goes blind.
func (e *Engine) Pkg(rel string) *packages.Package {
	p := e.ByPath[modPath+"/"+rel]
	if p == nil {
		if rel == "" {
			p = e.ByPath[modPath]
		}
	}
	if p == nil {
		blind("package %s not found", rel)
	}
	return p
}

func (e *Engine) HasPkg(rel string) bool { return e.ByPath[modPath+"/"+rel] != nil }

// Obj looks up a package-level object.
func (e *Engine) Obj(rel, name string) types.Object {
	o := e.Pkg(rel).Types.Scope().Lookup(name)
	if o == nil {
		blind("object %s.%s not found", rel, name)
	}
	return o
}

func (e *Engine) Named(rel, name string) *types.Named {
	n, ok := types.Unalias(e.Obj(rel, name).Type()).(*types.Named)
	if !ok {
		blind("%s.%s is not a named type", rel, name)
	}
	return n
}

// ExtNamed looks up a named type in a dependency (by full import path).
func (e *Engine) ExtNamed(path, name string) *types.Named {
	var found *types.Package
	packages.Visit(e.Pkgs, func(p *packages.Package) bool {
		if found != nil {
			return false
		}
		if p.PkgPath == path && p.Types != nil {
			found = p.Types
			return false
		}
		return true
	}, nil)
	if found == nil {
		blind("dependency %s not loaded", path)
	}
	o := found.Scope().Lookup(name)
	if o == nil {
		blind("%s.%s not found", path, name)
	}
	n, ok := o.Type().(*types.Named)
	if !ok {
		blind("%s.%s not a named type", path, name)
	}
	return n
}

func (e *Engine) ExtObj(path, name string) types.Object {
	var found *types.Package
	packages.Visit(e.Pkgs, func(p *packages.Package) bool {
		if found != nil {
			return false
		}
		if p.PkgPath == path && p.Types != nil {
			found = p.Types
			return false
		}
		return true
	}, nil)
	if found == nil {
		blind("dependency %s not loaded", path)
	}
	o := found.Scope().Lookup(name)
	if o == nil {
		blind("%s.%s not found", path, name)
	}
	return o
}

// FuncObj resolves "Name" or "Type.Method" in a module package to its *types.Func.
func (e *Engine) FuncObj(rel, name string) *types.Func {
	f := e.funcObjOpt(rel, name)
	if f == nil {
		blind("function %s.%s not found", rel, name)
	}
	return f
}

func (e *Engine) funcObjOpt(rel, name string) *types.Func {
	f := e.funcObjByName(rel, name)
	noteAnchor(rel, name, f)
	if f == nil {
		// the anchor may have been renamed: unique new function of the same package with the pinned signature
		f = e.renamedAnchor(rel, name)
	}
	return f
}

func (e *Engine) funcObjByName(rel, name string) *types.Func {
	p := e.ByPath[modPath+"/"+rel]
	if p == nil {
		return nil
	}
	if i := strings.Index(name, "."); i >= 0 {
		tn, mn := name[:i], name[i+1:]
		o := p.Types.Scope().Lookup(tn)
		if o == nil {
			return nil
		}
		obj, _, _ := types.LookupFieldOrMethod(types.NewPointer(o.Type()), true, p.Types, mn)
		f, _ := obj.(*types.Func)
		return f
	}
	f, _ := p.Types.Scope().Lookup(name).(*types.Func)
	return f
}

// Func resolves a function to its SSA body.
func (e *Engine) Func(rel, name string) *ssa.Function {
	f := e.FuncOpt(rel, name)
	if f == nil {
		blind("function body %s.%s not found", rel, name)
	}
	return f
}

func (e *Engine) FuncOpt(rel, name string) *ssa.Function {
	o := e.funcObjOpt(rel, name)
	if o == nil {
		return nil
	}
	if f := e.fnByObj[o]; f != nil {
		return f
	}
	f := e.Prog.FuncValue(o)
	if f == nil || f.Blocks == nil {
		return nil
	}
	return f
}

func (e *Engine) FnOf(o *types.Func) *ssa.Function {
	if f := e.fnByObj[o]; f != nil {
		return f
	}
	return nil
}

func (e *Engine) pos(p token.Pos) string {
	if !p.IsValid() {
		return "?"
	}
	ps := e.Fset.Position(p)
	rel, err := filepath.Rel(e.Repo, ps.Filename)
	if err != nil {
		rel = ps.Filename
	}
	return fmt.Sprintf("%s:%d", rel, ps.Line)
}

func (e *Engine) file(p token.Pos) string {
	ps := e.Fset.Position(p)
	rel, err := filepath.Rel(e.Repo, ps.Filename)
	if err != nil {
		return ps.Filename
	}
	return rel
}

// instrPos returns the best position for an instruction (falls back to its block/function).
func (e *Engine) instrPos(in ssa.Instruction) string {
	if in.Pos().IsValid() {
		return e.pos(in.Pos())
	}
	if v, ok := in.(ssa.Value); ok {
		for _, r := range *v.Referrers() {
			if r.Pos().IsValid() {
				return e.pos(r.Pos())
			}
		}
	}
	return e.pos(in.Parent().Pos())
}

// fname gives a stable, line-free name for a function: pkg.(Recv).Name or parent$n for closures.
func fname(fn *ssa.Function) string {
	if fn == nil {
		return "<nil>"
	}
	s := fn.String()
	s = strings.ReplaceAll(s, modPath+"/", "")
	return pinnedSpelling(fn, s)
}

// topLevel returns the outermost declared function enclosing fn.
func topLevel(fn *ssa.Function) *ssa.Function {
	for fn.Parent() != nil {
		fn = fn.Parent()
	}
	return fn
}

// withClosures returns fn and all anonymous functions nested in it.
func withClosures(fn *ssa.Function) []*ssa.Function {
	out := []*ssa.Function{fn}
	for _, a := range fn.AnonFuncs {
		out = append(out, withClosures(a)...)
	}
	return out
}

// eachInstr visits every instruction of fn (and, if nested, of its closures).
func eachInstr(fn *ssa.Function, nested bool, f func(ssa.Instruction)) {
	fns := []*ssa.Function{fn}
	if nested {
		fns = withClosures(fn)
	}
	for _, g := range fns {
		for _, b := range g.Blocks {
			for _, in := range b.Instrs {
				f(in)
			}
		}
	}
}

// calleeObj returns the *types.Func a call resolves to: the static callee's object, or the
// interface method for an invoke. nil for calls of function values and builtins.
func calleeObj(c ssa.CallInstruction) *types.Func {
	cc := c.Common()
	if cc.IsInvoke() {
		return cc.Method
	}
	if f := cc.StaticCallee(); f != nil {
		if o, ok := canon(f).Object().(*types.Func); ok {
			return o
		}
		// bound method / thunk wrappers
		if f.Synthetic != "" {
			if o, ok := f.Object().(*types.Func); ok {
				return o
			}
		}
	}
	return nil
}

func staticCallee(c ssa.CallInstruction) *ssa.Function {
	if f := c.Common().StaticCallee(); f != nil {
		return canon(f)
	}
	return nil
}

// callArgs returns the actual arguments including the receiver as first element for method calls.
func callArgs(c ssa.CallInstruction) []ssa.Value {
	cc := c.Common()
	if cc.IsInvoke() {
		return append([]ssa.Value{cc.Value}, cc.Args...)
	}
	return cc.Args
}

// callsIn lists the calls in fn (optionally nested closures) whose resolved callee satisfies pred.
func callsIn(fn *ssa.Function, nested bool, pred func(*types.Func) bool) []ssa.CallInstruction {
	var out []ssa.CallInstruction
	eachInstr(fn, nested, func(in ssa.Instruction) {
		if c, ok := in.(ssa.CallInstruction); ok {
			if o := calleeObj(c); o != nil && pred(o) {
				out = append(out, c)
			}
		}
	})
	return out
}

func isObj(objs ...*types.Func) func(*types.Func) bool {
	return func(o *types.Func) bool {
		for _, x := range objs {
			if x == o {
				return true
			}
		}
		return false
	}
}

// CallersOf returns every call site in the module (optionally excluding test support) that
// statically calls fn or invokes an interface method that fn implements.
func (e *Engine) CallSitesOf(o *types.Func, includeTestSupport bool) []ssa.CallInstruction {
	var out []ssa.CallInstruction
	add := func(cs []ssa.CallInstruction) {
		for _, c := range cs {
			if !includeTestSupport && isTestSupport(pkgOf(c.Parent())) {
				continue
			}
			out = append(out, c)
		}
	}
	if f := e.fnByObj[o]; f != nil {
		add(e.callers[f])
	}
	add(e.invokes[o])
	return out
}

func pkgOf(fn *ssa.Function) string {
	fn = topLevel(fn)
	if fn.Pkg != nil {
		return fn.Pkg.Pkg.Path()
	}
	if o := fn.Origin(); o != nil && o.Pkg != nil {
		return o.Pkg.Pkg.Path()
	}
	if o := fn.Object(); o != nil && o.Pkg() != nil {
		return o.Pkg().Path()
	}
	return ""
}

// implementsMethod reports whether concrete method m (a *types.Func with receiver) implements
// interface method im (same name, receiver type implements the interface that declares im).
func implementsMethod(m, im *types.Func) bool {
	if m.Name() != im.Name() {
		return false
	}
	msig := m.Type().(*types.Signature)
	isig := im.Type().(*types.Signature)
	if msig.Recv() == nil || isig.Recv() == nil {
		return false
	}
	it, ok := isig.Recv().Type().Underlying().(*types.Interface)
	if !ok {
		return false
	}
	rt := msig.Recv().Type()
	return types.Implements(rt, it) || types.Implements(types.NewPointer(rt), it)
}

// Implementations returns the module's concrete methods implementing interface method im.
func (e *Engine) Implementations(im *types.Func) []*ssa.Function {
	if r, ok := e.impls[im]; ok {
		return r
	}
	var out []*ssa.Function
	for _, fn := range e.Fns {
		o, ok := fn.Object().(*types.Func)
		if !ok || fn.Origin() != nil || fn.Parent() != nil {
			continue
		}
		if implementsMethod(o, im) {
			out = append(out, fn)
		}
	}
	e.impls[im] = out
	return out
}

// IfaceMethod returns the method object of an interface type declared in the module.
func (e *Engine) IfaceMethod(rel, iface, method string) *types.Func {
	n := e.Named(rel, iface)
	it, ok := n.Underlying().(*types.Interface)
	if !ok {
		blind("%s.%s is not an interface", rel, iface)
	}
	for i := 0; i < it.NumMethods(); i++ {
		if it.Method(i).Name() == method {
			return it.Method(i)
		}
	}
	blind("%s.%s has no method %s", rel, iface, method)
	return nil
}

// Reaches reports whether from can reach any function satisfying pred through static calls,
// closures, function-value references and CHA-resolved invokes (bounded by module functions).
func (e *Engine) Reaches(from *ssa.Function, pred func(*ssa.Function) bool, through func(*ssa.Function) bool) (bool, []*ssa.Function) {
	type item struct {
		fn   *ssa.Function
		prev *item
	}
	seen := map[*ssa.Function]bool{from: true}
	queue := []*item{{from, nil}}
	for len(queue) > 0 {
		it := queue[0]
		queue = queue[1:]
		if it.fn != from && pred(it.fn) {
			var path []*ssa.Function
			for x := it; x != nil; x = x.prev {
				path = append([]*ssa.Function{x.fn}, path...)
			}
			return true, path
		}
		if it.fn != from && through != nil && !through(it.fn) {
			continue
		}
		for _, nx := range e.Successors(it.fn) {
			if !seen[nx] {
				seen[nx] = true
				queue = append(queue, &item{nx, it})
			}
		}
	}
	return false, nil
}

// Successors: functions directly called or referenced by fn (closures included as references).
func (e *Engine) Successors(fn *ssa.Function) []*ssa.Function {
	var out []*ssa.Function
	seen := map[*ssa.Function]bool{}
	add := func(f *ssa.Function) {
		f = canon(f)
		if !seen[f] {
			seen[f] = true
			out = append(out, f)
		}
	}
	if fn.Blocks == nil {
		return nil
	}
	for _, b := range fn.Blocks {
		for _, in := range b.Instrs {
			if c, ok := in.(ssa.CallInstruction); ok {
				cc := c.Common()
				if cc.IsInvoke() {
					for _, impl := range e.Implementations(cc.Method) {
						add(impl)
					}
				}
			}
			for _, op := range in.Operands(nil) {
				if op == nil || *op == nil {
					continue
				}
				if f, ok := (*op).(*ssa.Function); ok {
					add(f)
				}
			}
		}
	}
	return out
}

// enclosingFuncDecl finds the declared function/method whose body spans pos.
func (e *Engine) enclosingFuncDecl(p *packages.Package, pos token.Pos) *ast.FuncDecl {
	for _, f := range p.Syntax {
		if f.Pos() <= pos && pos <= f.End() {
			for _, d := range f.Decls {
				if fd, ok := d.(*ast.FuncDecl); ok && fd.Pos() <= pos && pos <= fd.End() {
					return fd
				}
			}
		}
	}
	return nil
}

func funcDeclName(fd *ast.FuncDecl) string {
	if fd == nil {
		return "<file scope>"
	}
	if fd.Recv != nil && len(fd.Recv.List) > 0 {
		t := fd.Recv.List[0].Type
		if s, ok := t.(*ast.StarExpr); ok {
			t = s.X
		}
		if ix, ok := t.(*ast.IndexExpr); ok {
			t = ix.X
		}
		if ix, ok := t.(*ast.IndexListExpr); ok {
			t = ix.X
		}
		if id, ok := t.(*ast.Ident); ok {
			return id.Name + "." + fd.Name.Name
		}
	}
	return fd.Name.Name
}

// modulePackages returns non-test-support module packages sorted by path.
func (e *Engine) modulePackages(includeTestSupport bool) []*packages.Package {
	var out []*packages.Package
	for _, p := range e.Pkgs {
		if !includeTestSupport && isTestSupport(p.PkgPath) {
			continue
		}
		out = append(out, p)
	}
	sort.Slice(out, func(i, j int) bool { return out[i].PkgPath < out[j].PkgPath })
	return out
}

package main

import "go/ast"

type astCompositeLit struct{ node *ast.CompositeLit }
type astKeyValueExpr = ast.KeyValueExpr
type astIdent = ast.Ident

func astInspectLits(f *ast.File, fn func(*astCompositeLit)) {
	ast.Inspect(f, func(n ast.Node) bool {
		if cl, ok := n.(*ast.CompositeLit); ok {
			fn(&astCompositeLit{cl})
		}
		return true
	})
}

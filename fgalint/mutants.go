package main

// Two-way testing of the checker: overlay mutants (one instance broken per mutant, applied in
// memory through packages.Config.Overlay; nothing is written into /repo and nothing is executed).
// A mutant must type-check and must be reported by the expected rule at the expected construct.
// Mutants never influence the verdict on the real tree.

import (
	"encoding/json"
	"flag"
	"fmt"
	"os"
	"os/exec"
	"path/filepath"
	"sort"
	"strings"
	"sync"
)

type Mutant struct {
	ID        string `json:"id"`
	Property  string `json:"property"`
	File      string `json:"file"` // relative to the repository root
	Old       string `json:"old"`  // must occur exactly once in File
	New       string `json:"new"`
	Rule      string `json:"rule"`      // rule expected to report it
	Construct string `json:"construct"` // substring of the reported construct (optional)
	Why       string `json:"why"`
	Append    string `json:"append,omitempty"` // text appended to the file (package-level declarations the mutant needs)
}

type mutantOutcome struct {
	ID       string `json:"id"`
	Status   string `json:"status"` // caught | missed | skipped | invalid
	Detail   string `json:"detail,omitempty"`
	Reported string `json:"reported,omitempty"`
}

func loadMutants(prop string) []Mutant {
	var out []Mutant
	files, _ := filepath.Glob(filepath.Join(verifDir, "mutants", "*.json"))
	sort.Strings(files)
	for _, f := range files {
		b, err := os.ReadFile(f)
		if err != nil {
			continue
		}
		var ms []Mutant
		if err := json.Unmarshal(b, &ms); err != nil {
			fmt.Fprintf(os.Stderr, "mutants: %s: %v\n", f, err)
			continue
		}
		for _, m := range ms {
			if prop == "" || m.Property == prop {
				out = append(out, m)
			}
		}
	}
	return out
}

func runMutant(m Mutant) mutantOutcome {
	path := filepath.Join(repoDir, m.File)
	src, err := os.ReadFile(path)
	if err != nil {
		return mutantOutcome{m.ID, "skipped", "file not found: " + m.File, ""}
	}
	if n := strings.Count(string(src), m.Old); n != 1 {
		return mutantOutcome{m.ID, "skipped", fmt.Sprintf("anchor occurs %d times (tree changed at the anchor)", n), ""}
	}
	mutated := strings.Replace(string(src), m.Old, m.New, 1) + m.Append
	ov, _ := json.Marshal(map[string]string{path: mutated})
	tmp, err := os.CreateTemp(filepath.Join(verifDir, ".cache"), "ovl-*.json")
	if err != nil {
		return mutantOutcome{m.ID, "invalid", err.Error(), ""}
	}
	defer os.Remove(tmp.Name())
	tmp.Write(ov)
	tmp.Close()
	exe, _ := os.Executable()
	cmd := exec.Command(exe, "analyse", "-p", m.Property, "-overlay", tmp.Name())
	cmd.Env = append(os.Environ(), "GOMAXPROCS=4")
	outb, err := cmd.Output()
	if err != nil {
		msg := err.Error()
		if ee, ok := err.(*exec.ExitError); ok {
			msg = strings.TrimSpace(string(ee.Stderr))
			if len(msg) > 300 {
				msg = msg[:300]
			}
		}
		return mutantOutcome{m.ID, "invalid", "mutant does not load/type-check: " + msg, ""}
	}
	var res Results
	if err := json.Unmarshal(outb, &res); err != nil {
		return mutantOutcome{m.ID, "invalid", "bad analyser output", ""}
	}
	pr := res.Props[m.Property]
	if pr == nil {
		return mutantOutcome{m.ID, "invalid", "no result for property", ""}
	}
	var others []string
	for _, o := range pr.Obligations {
		if o.Status != "violated" {
			continue
		}
		if o.Rule == m.Rule && (m.Construct == "" || strings.Contains(o.Construct, m.Construct)) {
			return mutantOutcome{m.ID, "caught", "", o.Key()}
		}
		others = append(others, o.Key())
	}
	if len(pr.Blind) > 0 {
		return mutantOutcome{m.ID, "missed", "no verdict: " + strings.Join(pr.Blind, "; "), strings.Join(others, " ; ")}
	}
	return mutantOutcome{m.ID, "missed", "expected rule did not fire", strings.Join(others, " ; ")}
}

func runMutants(ms []Mutant, par int) []mutantOutcome {
	out := make([]mutantOutcome, len(ms))
	sem := make(chan struct{}, par)
	var wg sync.WaitGroup
	for i, m := range ms {
		wg.Add(1)
		sem <- struct{}{}
		go func(i int, m Mutant) {
			defer wg.Done()
			defer func() { <-sem }()
			out[i] = runMutant(m)
		}(i, m)
	}
	wg.Wait()
	return out
}

// thoroughExtras: mutant corpus of the property + alternative build configurations.
func thoroughExtras(prop string) (map[string]any, int) {
	info := map[string]any{}
	ms := loadMutants(prop)
	outs := runMutants(ms, 5)
	counts := map[string]int{}
	for _, o := range outs {
		counts[o.Status]++
		if o.Status != "caught" {
			fmt.Printf("  mutant %-40s %s %s\n", o.ID, o.Status, o.Detail)
		}
	}
	fmt.Printf("  checker self-test on overlay mutants: %d caught, %d missed, %d skipped, %d invalid (of %d)\n", counts["caught"], counts["missed"], counts["skipped"], counts["invalid"], len(ms))
	info["mutants"] = outs
	info["mutants_caught"] = counts["caught"]
	info["mutants_total"] = len(ms)
	// alternative build configurations: the property must hold there as well
	code := 0
	for _, cfg := range [][2]string{{"windows", "amd64"}, {"linux", "386"}} {
		exe, _ := os.Executable()
		cmd := exec.Command(exe, "analyse", "-p", prop, "-goos", cfg[0], "-goarch", cfg[1])
		outb, err := cmd.Output()
		label := cfg[0] + "/" + cfg[1]
		if err != nil {
			info["config_"+label] = "not loadable: " + err.Error()
			fmt.Printf("  build configuration %s: not loadable (recorded, not gating)\n", label)
			continue
		}
		var res Results
		if json.Unmarshal(outb, &res) != nil || res.Props[prop] == nil {
			continue
		}
		bad := 0
		for _, o := range res.Props[prop].Obligations {
			if o.Status == "violated" {
				bad++
				fmt.Printf("  [%s] %s: %s\n", label, o.Key(), o.Detail)
			}
		}
		info["config_"+label] = fmt.Sprintf("%d obligations, %d violated", len(res.Props[prop].Obligations), bad)
		fmt.Printf("  build configuration %s: %d obligations, %d violated\n", label, len(res.Props[prop].Obligations), bad)
		if bad > 0 {
			fmt.Printf("VIOLATION property=%s replay=%s\n", prop, filepath.Join(verifDir, "replay", prop, "config-"+cfg[0]+"-"+cfg[1]+".txt"))
			os.MkdirAll(filepath.Join(verifDir, "replay", prop), 0o755)
			os.WriteFile(filepath.Join(verifDir, "replay", prop, "config-"+cfg[0]+"-"+cfg[1]+".txt"), outb, 0o644)
			code = 1
		}
	}
	return info, code
}

func cmdMutants(args []string) int {
	fs := flag.NewFlagSet("mutants", flag.ExitOnError)
	prop := fs.String("p", "", "property (all if empty)")
	only := fs.String("id", "", "only this mutant id")
	par := fs.Int("j", 5, "parallel analyses")
	fs.Parse(args)
	os.MkdirAll(filepath.Join(verifDir, ".cache"), 0o755)
	ms := loadMutants(*prop)
	if *only != "" {
		var f []Mutant
		for _, m := range ms {
			if m.ID == *only {
				f = append(f, m)
			}
		}
		ms = f
	}
	outs := runMutants(ms, *par)
	bad := 0
	for _, o := range outs {
		fmt.Printf("%-8s %-44s %s %s\n", o.Status, o.ID, o.Detail, o.Reported)
		if o.Status != "caught" {
			bad++
		}
	}
	fmt.Printf("%d mutants, %d not caught\n", len(outs), bad)
	if bad > 0 {
		return 1
	}
	return 0
}

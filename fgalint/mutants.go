package main

func thoroughExtras(prop string) (map[string]any, int) { return map[string]any{}, 0 }
func cmdMutants(args []string) int                      { return 0 }

package main

import (
	"bufio"
	"encoding/json"
	"fmt"
	"os"
	"path/filepath"
	"sort"
)

// naReasons: properties not claimed, with the reason (kept in step with DESIGN.md §4).
var naReasons = map[string]string{
	"C19": "whether some input makes some instruction panic, allocate without bound or spin is a reachability question over run-time values; no structural clause is both a necessary condition and soundly checkable (a goroutine without recover is not a violation unless a panic can occur in it), so static analysis gives an honest not-applicable",
}

func cmdManifest() int {
	ids := map[string]bool{}
	for _, p := range registry {
		if len(p.id) == 3 && p.id[0] == 'C' {
			ids[p.id] = true
		}
	}
	var all []string
	f, err := os.Open(filepath.Join(verifDir, "properties.jsonl"))
	if err != nil {
		fmt.Fprintln(os.Stderr, err)
		return 2
	}
	sc := bufio.NewScanner(f)
	sc.Buffer(make([]byte, 1<<20), 1<<24)
	for sc.Scan() {
		var p struct {
			ID string `json:"id"`
		}
		if json.Unmarshal(sc.Bytes(), &p) == nil && p.ID != "" {
			all = append(all, p.ID)
		}
	}
	sort.Strings(all)
	var checks []map[string]any
	var na []map[string]any
	var served []string
	for _, id := range all {
		if !ids[id] {
			reason := naReasons[id]
			if reason == "" {
				reason = "no structural clause of this property is decided by the framework yet; not claimed"
			}
			na = append(na, map[string]any{"property_id": id, "reason": reason})
			continue
		}
		served = append(served, id)
		m := propMeta[id]
		checks = append(checks, map[string]any{
			"property_id":         id,
			"quick_cmd":           "./check " + id + " quick",
			"thorough_cmd":        "./check " + id + " thorough",
			"evidence_file":       "/verif/evidence/" + id + ".json",
			"replay_cmd_template": "cat {path}",
			"engine":              "fgalint",
			"level_claimed": map[string]any{
				"category":   "other",
				"text":       "Static analysis (resolved-program lint, no execution): decides structural necessary conditions of the property on every path / call site / backend of the current tree. Decides: " + m.Decides + " Not decided (outside this technique): " + m.NotDecided,
				"design_ref": "DESIGN.md §2 " + id,
			},
			"level_note": "Trusted base: go/types + go/ssa (x/tools v0.50.0), the Go semantics of the summarised constructs, the frozen idiom/exemption tables in /verif/fgalint (one reason each). The clauses are necessary, not sufficient: a pass does not establish the behavioural statement.",
			"technique":  techniqueOf(id),
		})
	}
	man := map[string]any{
		"version":   1,
		"setup_cmd": "./setup.sh",
		"hooks": map[string]any{
			"guard":            "verif",
			"enable":           "none needed: the analyser reads /repo's sources; no instrumentation is compiled into /repo",
			"baseline_off_cmd": "for m in $(cat /w/out/gomods.txt); do MF=$(cd /repo/$m && . /w/out/goenv.sh && gomodflag); (cd /repo/$m && go test $MF -json -vet=off -count=1 -timeout 25m ./...); done",
			"source_commits":   []string{},
			"add_only":         true,
		},
		"engines": []map[string]any{{
			"name": "fgalint", "path": "/verif/fgalint", "serves_properties": served,
			"kind_free_text": "repository-specific static analyser: go/packages + go/types + go/ssa; cut-reachability (must-pass-through), access-path/field coverage, exhaustiveness, who-may-call, SQL statement reconstruction, sibling agreement",
		}},
		"checks":         checks,
		"not_applicable": na,
		"notes":          "All checks are static: they load and type-check /repo's working tree on every run (digest-keyed cache under /verif/.cache shared by the per-property commands) and report a specific construct. exit 0 = all obligations discharged; exit 1 + VIOLATION line = a violated obligation; exit 2 = no verdict (tree does not type-check, an anchor no longer resolves, or a rule matched fewer instances than its floor).",
	}
	b, _ := json.MarshalIndent(man, "", " ")
	os.Stdout.Write(b)
	fmt.Println()
	return 0
}

var techniques = map[string]string{}

func techniqueOf(id string) string {
	if t := techniques[id]; t != "" {
		return t
	}
	return "static analysis over go/ssa + go/types (custom repository-specific rules)"
}

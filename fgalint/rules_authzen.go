package main

// C32: AuthZEN endpoints obtain every decision and result set from the native handlers.

import (
	"fmt"
	"go/types"
	"strings"

	"golang.org/x/tools/go/ssa"
)

func ruleAuthZen(e *Engine, r *Reporter) {
	native := map[*ssa.Function]bool{}
	for _, h := range e.serverHandlers("github.com/openfga/api/proto/openfga/v1", "OpenFGAServiceServer") {
		native[h] = true
	}
	handlers := e.serverHandlers("github.com/openfga/api/proto/authzen/v1", "AuthZenServiceServer")
	// helper functions of the AuthZEN file reachable from the handlers (same package, not native handlers)
	var fns []*ssa.Function
	seen := map[*ssa.Function]bool{}
	var add func(f *ssa.Function)
	add = func(f *ssa.Function) {
		if f == nil || seen[f] || f.Blocks == nil || native[f] {
			return
		}
		seen[f] = true
		fns = append(fns, f)
		eachInstr(f, true, func(in ssa.Instruction) {
			if c, ok := in.(ssa.CallInstruction); ok {
				if g := staticCallee(c); g != nil && short(pkgOf(g)) == "pkg/server" && g.Parent() == nil && strings.HasSuffix(e.file(g.Pos()), "authzen.go") {
					add(g)
				}
			}
		})
	}
	for _, h := range handlers {
		add(h)
	}
	if len(handlers) < 5 {
		blind("authzen: only %d handlers resolved", len(handlers))
	}

	r.Rule("authzen-layering", "AuthZEN handlers and their helpers never evaluate anything themselves: no call into commands.*, the check resolvers or the datastore (model resolution in ActionSearch excepted); they call the native handlers", 6)
	dsIface := e.Named("pkg/storage", "OpenFGADatastore").Underlying()
	for _, f := range fns {
		bad := ""
		calls := 0
		eachInstr(f, true, func(in ssa.Instruction) {
			c, ok := in.(ssa.CallInstruction)
			if !ok {
				return
			}
			if c.Common().IsInvoke() {
				if it := c.Common().Value.Type().Underlying(); it == dsIface {
					bad = "datastore." + c.Common().Method.Name()
				}
				return
			}
			g := staticCallee(c)
			if g == nil {
				return
			}
			if native[g] {
				calls++
			}
			p := short(pkgOf(g))
			if strings.HasPrefix(p, "pkg/server/commands") || p == "internal/graph" || p == "internal/check" {
				bad = shortFuncName(g)
			}
			if g.Name() == "v2Check" {
				bad = "v2Check"
			}
		})
		r.Check(bad == "", fname(f), e.pos(f.Pos()), fmt.Sprintf("%d calls of native handlers, no direct evaluation", calls), "the AuthZEN code evaluates through "+bad+" instead of the native API handler: its answers can diverge from Check/ListObjects/ListUsers (and bypass their authorisation, validation and caching rules)")
	}

	r.Rule("authzen-decision-from-native", "every EvaluationResponse.Decision is either the un-negated GetAllowed() of a native Check/BatchCheck result, or constant false together with an error context", 5)
	n := 0
	for _, f := range fns {
		for _, g := range withClosures(f) {
			for _, b := range g.Blocks {
				for _, in := range b.Instrs {
					st, ok := in.(*ssa.Store)
					if !ok {
						continue
					}
					fa, ok := st.Addr.(*ssa.FieldAddr)
					if !ok || fieldName(fa.X.Type(), fa.Field) != "Decision" || typeBaseName(derefType(fa.X.Type())) != "EvaluationResponse" {
						continue
					}
					n++
					key := fmt.Sprintf("%s | Decision #%d", fname(f), n)
					d := describe_(st.Val)
					if bv, isC := constBool(st.Val); isC {
						// false with a context
						ctxSet := false
						for _, ref := range *fa.X.Referrers() {
							if fa2, ok := ref.(*ssa.FieldAddr); ok && fieldName(fa2.X.Type(), fa2.Field) == "Context" {
								ctxSet = true
							}
						}
						r.Check(!bv && ctxSet, key, e.instrPos(in), "constant false with an error context", "a constant decision is returned (true, or false without an error context)")
						continue
					}
					okv := strings.HasSuffix(d, ".GetAllowed()") && !strings.HasPrefix(d, "!") && (strings.Contains(d, ".Check(") || strings.Contains(d, ".BatchCheck(") || strings.Contains(d, "GetResult()"))
					r.Check(okv, key, e.instrPos(in), "Decision = "+shorten(d, 90), "the decision is not the un-negated GetAllowed() of the native result: "+shorten(d, 160))
				}
			}
		}
	}
	if n == 0 {
		blind("authzen-decision: no Decision assignment found")
	}

	r.Rule("authzen-batch-correlation", "evaluateAll gives item i the correlation id strconv.Itoa(i) and reads result strconv.Itoa(i) back into responses[i]", 2)
	ea := e.Func("pkg/server", "Server.evaluateAll")
	corrOK, readOK := false, true
	var lookupIdx ssa.Value
	nStores := 0
	eachInstr(ea, false, func(in ssa.Instruction) {
		if l, ok := in.(*ssa.Lookup); ok {
			if c, ok := l.Index.(*ssa.Call); ok {
				if g := c.Call.StaticCallee(); g != nil && g.Name() == "Itoa" && strings.Contains(describe_(l.X), "GetResult()") {
					lookupIdx = c.Call.Args[0]
				}
			}
		}
	})
	eachInstr(ea, false, func(in ssa.Instruction) {
		x, ok := in.(*ssa.Store)
		if !ok {
			return
		}
		if fa, ok := x.Addr.(*ssa.FieldAddr); ok && fieldName(fa.X.Type(), fa.Field) == "CorrelationId" {
			d := describe_(x.Val)
			if strings.HasPrefix(d, "strconv.Itoa(") && strings.Contains(d, "loop") {
				corrOK = true
			}
		}
		if ia, ok := x.Addr.(*ssa.IndexAddr); ok && typeBaseName(derefType(x.Val.Type())) == "EvaluationResponse" {
			nStores++
			if lookupIdx == nil || ia.Index != lookupIdx {
				readOK = false
			}
		}
	})
	readOK = readOK && nStores > 0 && lookupIdx != nil
	r.Check(corrOK, fname(ea)+" | correlation id = index", e.pos(ea.Pos()), "CorrelationId = Itoa(i)", "batch items are not tagged with their own index")
	r.Check(readOK, fname(ea)+" | result i read for response i", e.pos(ea.Pos()), "responses[i] built from result Itoa(i)", "a response slot is filled from a result looked up under another index")

	r.Rule("authzen-store-and-model", "every native request an AuthZEN handler builds carries the AuthZEN request's store id", 3)
	for _, f := range fns {
		eachInstr(f, true, func(in ssa.Instruction) {
			st, ok := in.(*ssa.Store)
			if !ok {
				return
			}
			fa, ok := st.Addr.(*ssa.FieldAddr)
			if !ok || fieldName(fa.X.Type(), fa.Field) != "StoreId" {
				return
			}
			tn := typeBaseName(derefType(fa.X.Type()))
			if !strings.HasSuffix(tn, "Request") || tn == "EvaluationRequest" {
				return
			}
			r.Check(e.isStoreSource(st.Val, 3), fmt.Sprintf("%s | %s.StoreId", fname(f), tn), e.instrPos(in), "store = "+describe_(st.Val), "the native request is not sent to the AuthZEN request's store: "+describe_(st.Val))
		})
	}

	ruleAuthzenModelAndRoles(e, r, fns)
	ruleEvalDefaultsAreRequestLevel(e, r, fns)

	r.Rule("authzen-search-projection", "SubjectSearch and ResourceSearch return a projection of every element of the native ListUsers / StreamedListObjects result (no element dropped except by type/format parsing), and ActionSearch returns exactly the relations whose BatchCheck result is allowed", 3)
	ss := e.Func("pkg/server", "Server.SubjectSearch")
	loopOK := false
	eachInstr(ss, false, func(in ssa.Instruction) {
		if c, ok := in.(*ssa.Call); ok {
			if b, ok := c.Call.Value.(*ssa.Builtin); ok && b.Name() == "append" && typeBaseName(derefElem(c.Type())) == "Subject" {
				d := describe_(c.Call.Args[1])
				if strings.Contains(d, "ListUsers(") && strings.Contains(d, "GetUsers()") {
					loopOK = true
				}
			}
		}
	})
	r.Check(loopOK, fname(ss)+" | subjects come from ListUsers", e.pos(ss.Pos()), "appended from listUsersResp.GetUsers()", "subjects are not projected from the native ListUsers result")
	rs := e.Func("pkg/server", "Server.ResourceSearch")
	resOK := false
	eachInstr(rs, false, func(in ssa.Instruction) {
		if c, ok := in.(*ssa.Call); ok {
			if b, ok := c.Call.Value.(*ssa.Builtin); ok && b.Name() == "append" && typeBaseName(derefElem(c.Type())) == "Resource" {
				d := describe_(c.Call.Args[1])
				if strings.Contains(d, "objectCollector") || strings.Contains(d, ".objects") {
					resOK = true
				}
			}
		}
	})
	callsSLO := false
	eachInstr(rs, false, func(in ssa.Instruction) {
		if c, ok := in.(ssa.CallInstruction); ok {
			if g := staticCallee(c); g != nil && (g.Name() == "StreamedListObjects" || g.Name() == "ListObjects") {
				callsSLO = true
			}
		}
	})
	r.Check(resOK && callsSLO, fname(rs)+" | resources come from (Streamed)ListObjects", e.pos(rs.Pos()), "appended from the collected native objects", "resources are not projected from the native ListObjects stream")
	as := e.Func("pkg/server", "Server.ActionSearch")
	actOK := false
	eachInstr(as, false, func(in ssa.Instruction) {
		if c, ok := in.(*ssa.Call); ok {
			if b, ok := c.Call.Value.(*ssa.Builtin); ok && b.Name() == "append" && typeBaseName(derefElem(c.Type())) == "Action" {
				g, _ := mustPass(as, in, cutSpec{edge: func(f Fact) bool { return callFactNamed(f, "GetAllowed", true) }})
				if g {
					actOK = true
				}
			}
		}
	})
	r.Check(actOK, fname(as)+" | an action is returned only when its check is allowed", e.pos(as.Pos()), "append behind result.GetAllowed()", "an action can be returned without its BatchCheck result being allowed")
}

func derefElem(t types.Type) types.Type {
	if sl, ok := t.Underlying().(*types.Slice); ok {
		return derefType(sl.Elem())
	}
	return t
}

func shorten(s string, n int) string {
	if len(s) <= n {
		return s
	}
	return s[:n] + "…"
}

// ---- strengthening: model pinning and argument roles ---------------------------------------------

// modelIDSource: v is the AuthZEN request's pinned model id: the header extraction, a model id resolved from
// it, or a parameter that receives one of those at every call site.
func (e *Engine) modelIDSource(v ssa.Value, depth int) bool {
	return derivesFrom(v, func(x ssa.Value) bool {
		switch y := x.(type) {
		case *ssa.Call:
			if o := calleeObj(y); o != nil && (o.Name() == "getAuthorizationModelIDFromHeader" || o.Name() == "GetAuthorizationModelID") {
				return true
			}
		case *ssa.Parameter:
			if depth <= 0 {
				return false
			}
			fn := y.Parent()
			idx := -1
			for i, p := range fn.Params {
				if p == y {
					idx = i
				}
			}
			sites := e.allCallSites(fn)
			if len(sites) == 0 || idx < 0 {
				return false
			}
			for _, cs := range sites {
				args := cs.Common().Args
				if idx >= len(args) || !e.modelIDSource(args[idx], depth-1) {
					return false
				}
			}
			return true
		}
		return false
	})
}

func ruleAuthzenModelAndRoles(e *Engine, r *Reporter, fns []*ssa.Function) {
	r.Rule("authzen-model-pinned", "every native request an AuthZEN handler builds that can carry a model id carries the one pinned by the AuthZEN request (header) — the batched path included", 4)
	for _, f := range fns {
		type lit struct {
			store, model *ssa.Store
		}
		lits := map[ssa.Value]*lit{}
		var order []ssa.Value
		eachInstr(f, true, func(in ssa.Instruction) {
			st, ok := in.(*ssa.Store)
			if !ok {
				return
			}
			fa, ok := st.Addr.(*ssa.FieldAddr)
			if !ok {
				return
			}
			tn := typeBaseName(derefType(fa.X.Type()))
			if !strings.HasSuffix(tn, "Request") || tn == "EvaluationRequest" {
				return
			}
			stt, ok := derefType(fa.X.Type()).Underlying().(*types.Struct)
			if !ok {
				return
			}
			hasModel := false
			for i := 0; i < stt.NumFields(); i++ {
				if stt.Field(i).Name() == "AuthorizationModelId" {
					hasModel = true
				}
			}
			if !hasModel {
				return
			}
			l := lits[fa.X]
			if l == nil {
				l = &lit{}
				lits[fa.X] = l
				order = append(order, fa.X)
			}
			switch fieldName(fa.X.Type(), fa.Field) {
			case "StoreId":
				l.store = st
			case "AuthorizationModelId":
				l.model = st
			}
		})
		ord := map[string]int{}
		for _, x := range order {
			l := lits[x]
			if l.store == nil {
				continue
			}
			tn := typeBaseName(derefType(x.Type()))
			key := fmt.Sprintf("%s | %s.AuthorizationModelId #%d", fname(f), tn, ord[tn])
			ord[tn]++
			if l.model == nil {
				r.Check(false, key, e.instrPos(l.store), "", "the native "+tn+" is built without AuthorizationModelId: it is evaluated against the latest model instead of the one the AuthZEN request pins")
				continue
			}
			r.Check(e.modelIDSource(l.model.Val, 2), key, e.instrPos(l.model), "model = "+describe_(l.model.Val), "the native request's model id does not come from the AuthZEN request's pinned model: "+describe_(l.model.Val))
		}
	}

	r.Rule("authzen-property-roles", "every call of mergePropertiesToContext passes the request's subject as subject, its resource as resource and its action as action", 3)
	n := 0
	for _, f := range fns {
		eachInstr(f, true, func(in ssa.Instruction) {
			c, ok := in.(ssa.CallInstruction)
			if !ok || !isCallNamed(in, "mergePropertiesToContext") {
				return
			}
			args := c.Common().Args
			if len(args) != 4 {
				return
			}
			roles := []string{"", "Subject", "Resource", "Action"}
			for i := 1; i <= 3; i++ {
				n++
				ok := isNilConst(args[i]) || e.roleSource(args[i], roles[i], 2) // nil: the request kind has no such entity
				r.Check(ok, fmt.Sprintf("%s | mergePropertiesToContext #%d %s", fname(f), n, strings.ToLower(roles[i])), e.instrPos(in), roles[i]+" <- "+describe_(args[i]), fmt.Sprintf("argument %d (%s properties) is %s: properties are namespaced under the wrong prefix, so conditions see different context than the native call would", i, strings.ToLower(roles[i]), describe_(args[i])))
			}
		})
	}
}

// roleSource: v comes from req.Get<Role>() (or a parameter receiving that at every call site, or the
// per-evaluation override resolved by resolveEvalFields in the same result position).
func (e *Engine) roleSource(v ssa.Value, role string, depth int) bool {
	pos := map[string]int{"Subject": 0, "Resource": 1, "Action": 2}[role]
	return derivesFrom(v, func(x ssa.Value) bool {
		switch y := x.(type) {
		case *ssa.Extract:
			if c, ok := y.Tuple.(*ssa.Call); ok {
				if o := calleeObj(c); o != nil && o.Name() == "resolveEvalFields" {
					return y.Index == pos
				}
			}
		case *ssa.Call:
			if o := calleeObj(y); o != nil {
				if o.Name() == "Get"+role {
					return true
				}
				if strings.HasPrefix(o.Name(), "Get") && (o.Name() == "GetSubject" || o.Name() == "GetResource" || o.Name() == "GetAction") {
					return false
				}
			}
		case *ssa.Parameter:
			if depth <= 0 {
				return false
			}
			fn := y.Parent()
			idx := -1
			for i, p := range fn.Params {
				if p == y {
					idx = i
				}
			}
			sites := e.allCallSites(fn)
			if len(sites) == 0 || idx < 0 {
				return false
			}
			for _, cs := range sites {
				args := cs.Common().Args
				if idx >= len(args) || !e.roleSource(args[idx], role, depth-1) {
					return false
				}
			}
			return true
		}
		return false
	})
}

// ruleEvalDefaultsAreRequestLevel: every item of a batched AuthZEN evaluation falls back to the *request-level*
// subject/resource/action/context.  The defaults handed to resolveEvalFields are the request's own getters, not a
// value carried over from the previous item.
func ruleEvalDefaultsAreRequestLevel(e *Engine, r *Reporter, fns []*ssa.Function) {
	r.Rule("authzen-item-defaults-request-level", "the defaults passed to resolveEvalFields for each evaluation item never derive from an earlier result of resolveEvalFields: an item that omits a field falls back to the request-level value, not to the previous item's", 2)
	isResolve := func(v ssa.Value) bool {
		c, ok := v.(*ssa.Call)
		if !ok {
			return false
		}
		o := calleeObj(c)
		return o != nil && o.Name() == "resolveEvalFields"
	}
	n := 0
	for _, f := range fns {
		eachInstr(f, true, func(in ssa.Instruction) {
			c, ok := in.(ssa.CallInstruction)
			if !ok || !isCallNamed(in, "resolveEvalFields") {
				return
			}
			n++
			bad := ""
			for i, a := range c.Common().Args {
				if derivesFrom(a, isResolve) {
					bad = fmt.Sprintf("argument %d (%s)", i, describe_(a))
				}
			}
			r.Check(bad == "", fmt.Sprintf("%s | resolveEvalFields defaults #%d", fname(topLevel(f)), n), e.instrPos(in), "defaults are loop-invariant request values", "the defaults handed to resolveEvalFields carry over from the previous item: "+bad+" — an item that omits the field inherits the previous item's value instead of the request's")
		})
	}
	if n == 0 {
		blind("authzen-item-defaults-request-level: no resolveEvalFields call found")
	}
}

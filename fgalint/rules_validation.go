package main

// C18 / C04: tuples are validated before they are written or made readable as contextual tuples.

import (
	"fmt"
	"strings"

	"golang.org/x/tools/go/ssa"
)

// containsValidator: fn (to the given depth over static module callees) calls one of the
// validators for contextual/written tuples.
func (e *Engine) containsValidator(fn *ssa.Function, depth int, seen map[*ssa.Function]bool) bool {
	if fn == nil || fn.Blocks == nil || seen[fn] {
		return false
	}
	seen[fn] = true
	found := false
	eachInstr(fn, true, func(in ssa.Instruction) {
		c, ok := in.(ssa.CallInstruction)
		if !ok || found {
			return
		}
		o := calleeObj(c)
		if o == nil {
			return
		}
		if o.Name() == "ValidateTupleForWrite" || o.Name() == "validateCtxTupleInModel" {
			found = true
			return
		}
		if depth > 0 {
			if g := staticCallee(c); g != nil && e.inModule(g) && e.containsValidator(g, depth-1, seen) {
				found = true
			}
		}
	})
	return found
}

// loopHeader returns the header of the innermost natural loop containing b, or nil.
func loopHeader(b *ssa.BasicBlock) *ssa.BasicBlock {
	for h := b; h != nil; h = h.Idom() {
		for _, p := range h.Preds {
			if h.Dominates(p) && reachNoBackOrSame(b, p) {
				return h
			}
		}
	}
	return nil
}

func reachNoBackOrSame(from, to *ssa.BasicBlock) bool {
	if from == to {
		return true
	}
	seen := map[*ssa.BasicBlock]bool{from: true}
	work := []*ssa.BasicBlock{from}
	for len(work) > 0 {
		x := work[len(work)-1]
		work = work[:len(work)-1]
		for _, s := range x.Succs {
			if s == to {
				return true
			}
			if !seen[s] {
				seen[s] = true
				work = append(work, s)
			}
		}
	}
	return false
}

// validatedBefore: in fn, some validating call V (direct validator or helper containing one)
// has its error turned into a failure and precedes `at` on every path (V's block, or the header
// of the loop V sits in, dominates at).
func (e *Engine) validatedBefore(fn *ssa.Function, at ssa.Instruction) (bool, string) {
	var why string
	ok := false
	for _, b := range fn.Blocks {
		for _, in := range b.Instrs {
			c, isCall := in.(*ssa.Call)
			if !isCall {
				continue
			}
			o := calleeObj(c)
			if o == nil {
				continue
			}
			isV := o.Name() == "ValidateTupleForWrite" || o.Name() == "validateCtxTupleInModel"
			if !isV {
				if g := staticCallee(c); g != nil && e.inModule(g) && e.containsValidator(g, 2, map[*ssa.Function]bool{}) {
					isV = true
				}
			}
			if !isV {
				continue
			}
			dom := b.Dominates(at.Block()) && (b != at.Block() || indexOf(b, in) < indexOf(b, at))
			if !dom {
				if h := loopHeader(b); h != nil && h.Dominates(at.Block()) && h != at.Block() && !reachNoBackOrSame(at.Block(), b) {
					dom = true
				}
			}
			if !dom {
				continue
			}
			fails, found := errorLeadsToFailure(fn, c)
			if found && fails {
				ok = true
				why = "validated by " + o.Name() + " at " + e.instrPos(in)
			} else if why == "" {
				why = "validator " + o.Name() + " is called but its error does not stop the request"
			}
		}
	}
	return ok, why
}

func (e *Engine) validatedUpTheChain(at ssa.Instruction, depth int) (bool, string) {
	fn := at.Parent()
	if ok, why := e.validatedBefore(fn, at); ok {
		return true, why
	}
	if depth == 0 {
		return false, "no validation found up the call chain"
	}
	if mc := e.parent[fn]; mc != nil {
		return e.validatedUpTheChain(mc, depth-1)
	}
	sites := e.allCallSites(fn)
	if len(sites) == 0 {
		return false, "not validated in " + fname(fn) + " and no callers to look at"
	}
	for _, cs := range sites {
		if ok, why := e.validatedUpTheChain(cs, depth-1); !ok {
			return false, why + " <- " + fname(fn)
		}
	}
	return true, fmt.Sprintf("validated at all %d call sites of %s", len(sites), fname(fn))
}

func ruleContextualTuplesValidated(e *Engine, r *Reporter) {
	r.Rule("ctx-tuples-validated-before-use", "contextual tuples become readable by an engine (NewRequestStorageWrapper*, NewCombinedTupleReader, check.NewRequest's index) only after each of them passed ValidateTupleForWrite / validateCtxTupleInModel with the error stopping the request", 4)
	names := map[string]bool{"NewRequestStorageWrapperWithCache": true, "NewRequestStorageWrapper": true, "NewCombinedTupleReader": true}
	for _, fn := range e.Fns {
		p := short(pkgOf(fn))
		if isTestSupport(pkgOf(fn)) || strings.HasPrefix(p, "pkg/storage") {
			continue
		}
		for _, b := range fn.Blocks {
			for _, in := range b.Instrs {
				c, ok := in.(ssa.CallInstruction)
				if !ok {
					continue
				}
				o := calleeObj(c)
				if o == nil || !names[o.Name()] || o.Pkg() == nil || !strings.HasSuffix(o.Pkg().Path(), "storagewrappers") {
					continue
				}
				top := topLevel(fn)
				ok2, why := e.validatedUpTheChain(in, 3)
				r.Check(ok2, fmt.Sprintf("%s | %s #%d", fname(top), o.Name(), ordinalIn(top, c)), e.instrPos(in), why, "contextual tuples are handed to the engine's reader without having been validated on every path: "+why)
			}
		}
	}
	// weighted-graph request: the contextual index is built only from validated tuples
	nr := e.Func("internal/check", "NewRequest")
	var build ssa.Instruction
	eachInstr(nr, false, func(in ssa.Instruction) {
		if c, ok := in.(ssa.CallInstruction); ok {
			if o := calleeObj(c); o != nil && o.Name() == "buildContextualTupleMaps" {
				build = in
			}
		}
	})
	if build == nil {
		blind("ctx-tuples-validated: buildContextualTupleMaps call not found in NewRequest")
	}
	ok, why := e.validatedBefore(nr, build)
	r.Check(ok, fname(nr)+" | buildContextualTupleMaps", e.instrPos(build), why, "the weighted-graph request indexes contextual tuples that were not validated against the model: "+why)
}

func ruleWriteValidated(e *Engine, r *Reporter) {
	r.Rule("write-behind-validation", "WriteCommand reaches datastore.Write only after validateWriteRequest returned nil; inside it every written tuple passes ValidateTupleForWrite, validateNotImplicit and the context size limit, and each validator's error stops the request; the validators in internal/validation chain to each other with their errors propagated", 10)
	ex := e.Func("pkg/server/commands", "WriteCommand.Execute")
	var w ssa.Instruction
	eachInstr(ex, false, func(in ssa.Instruction) {
		if c, ok := in.(ssa.CallInstruction); ok && c.Common().IsInvoke() && c.Common().Method.Name() == "Write" {
			w = in
		}
	})
	if w == nil {
		blind("write-behind-validation: datastore.Write not found")
	}
	g, _ := mustPass(ex, w, cutSpec{edge: func(f Fact) bool {
		return f.Kind == "nil" && f.Positive && strings.Contains(describe_(f.X), e.currentName("pkg/server/commands", "WriteCommand.validateWriteRequest")+"(")
	}})
	r.Check(g, fname(ex)+" | Write behind validateWriteRequest()==nil", e.instrPos(w), "validated first", "datastore.Write is reachable without a successful validateWriteRequest")
	chain := []struct {
		pkg, fn string
		callees []string
	}{
		{"pkg/server/commands", "WriteCommand.validateWriteRequest", []string{"ValidateTupleForWrite", e.currentName("pkg/server/commands", "WriteCommand.validateNotImplicit"), e.currentName("pkg/server/commands", "WriteCommand.validateNoDuplicatesAndCorrectSize"), "ReadAuthorizationModel", "New"}},
		{"internal/validation", "ValidateTupleForWrite", []string{"ValidateUserObjectRelation"}},
		{"internal/validation", "ValidateTupleForRead", []string{e.currentName("internal/validation", "validateTuplesetRestrictions"), e.currentName("internal/validation", "validateTypeRestrictions"), e.currentName("internal/validation", "validateCondition"), "HasTypeInfo"}},
	}
	for _, cspec := range chain {
		fn := e.Func(cspec.pkg, cspec.fn)
		for _, want := range cspec.callees {
			// the validator is called in fn, or in a same-package helper fn calls (one level); in the latter case the
			// helper must fail on the validator's error and fn must fail on the helper's
			var call *ssa.Call
			var via *ssa.Call
			eachInstr(fn, false, func(in ssa.Instruction) {
				if c, ok := in.(*ssa.Call); ok {
					if o := calleeObj(c); o != nil && o.Name() == want && call == nil {
						call = c
					}
				}
			})
			if call == nil {
				eachInstr(fn, false, func(in ssa.Instruction) {
					c, ok := in.(*ssa.Call)
					if !ok || call != nil {
						return
					}
					g := staticCallee(c)
					if g == nil || len(g.Blocks) == 0 || pkgOf(g) != pkgOf(fn) || g == fn {
						return
					}
					eachInstr(g, false, func(in2 ssa.Instruction) {
						if c2, ok := in2.(*ssa.Call); ok && call == nil {
							if o := calleeObj(c2); o != nil && o.Name() == want {
								call, via = c2, c
							}
						}
					})
				})
			}
			key := fmt.Sprintf("%s | %s", fname(fn), want)
			if call == nil {
				r.Bad(key, e.pos(fn.Pos()), "the validator "+want+" is no longer called here")
				continue
			}
			fails, found := errorLeadsToFailure(call.Parent(), call)
			if via != nil {
				f2, found2 := errorLeadsToFailure(fn, via)
				fails, found = fails && f2, found && found2
			}
			r.Check(found && fails, key, e.instrPos(call), "its error stops the request", "the error of "+want+" does not stop the request: an invalid tuple is accepted")
		}
	}
	// ValidateTupleForWrite ends in ValidateTupleForRead (its result is returned)
	vw := e.Func("internal/validation", "ValidateTupleForWrite")
	tail := false
	for _, rs := range returnSites(vw) {
		if len(rs.Results) == 1 && strings.Contains(describe_(rs.Results[0]), "ValidateTupleForRead(") {
			tail = true
		}
	}
	r.Check(tail, fname(vw)+" | returns ValidateTupleForRead", e.pos(vw.Pos()), "model-level validation is part of write validation", "ValidateTupleForWrite no longer returns the verdict of ValidateTupleForRead (type restrictions / tupleset / condition checks are skipped for writes and contextual tuples)")
	// context size limit: the `size > limit` edge cannot reach success
	vr0 := e.Func("pkg/server/commands", "WriteCommand.validateWriteRequest")
	sizeOK, sizeFound := false, false
	for _, vr := range sameePackageRegion(vr0, 1) {
	if sizeFound {
		break
	}
	for _, b := range vr.Blocks {
		for si := range b.Succs {
			for _, f := range edgeFacts(b, si) {
				if f.Kind != ">" || !f.Positive {
					continue
				}
				if !strings.Contains(describe_(f.X), "proto.Size(") || !strings.Contains(describe_(f.Y), "conditionContextByteLimit") {
					continue
				}
				sizeFound = true
				reach := blocksReachableFrom(b.Succs[si])
				sizeOK = true
				for _, rs := range returnSites(vr) {
					if rs.isSuccess() && reach[rs.At.Block()] {
						sizeOK = false
					}
				}
			}
		}
	}
	}
	vr := vr0
	r.Check(sizeFound && sizeOK, fname(vr)+" | condition context size limit", e.pos(vr.Pos()), "oversized context is rejected", "the condition context size limit is not enforced (test missing or its failing branch can still succeed)")
}

// validatorReference: getters each model-level validator consults on the relation's type
// restrictions (reviewed on the pinned tree; a validator that stops looking at one of them
// accepts tuples the model does not allow).
var validatorReference = map[string][]string{
	"validateCondition":        {"Type", "Condition"},
	"validateTypeRestrictions": {},
}

func ruleValidatorReference(e *Engine, r *Reporter) {
	r.Rule("validator-consults", "validateCondition decides on both the restriction's type and its condition name (reviewed reference set)", 2)
	fn := e.Func("internal/validation", "validateCondition")
	// getters invoked on RelationReference values anywhere in the function
	got := map[string]int{}
	// the function and the same-package helpers it calls (extracting one of the loops into a helper keeps the rule's view)
	for _, rf := range sameePackageRegion(fn, 2) {
	eachInstr(rf, true, func(in ssa.Instruction) {
		c, ok := in.(ssa.CallInstruction)
		if !ok {
			return
		}
		o := calleeObj(c)
		if o == nil {
			return
		}
		if g, isG := getterName(o); isG && len(c.Common().Args) > 0 && typeBaseName(derefType(c.Common().Args[0].Type())) == "RelationReference" {
			// the getter's value must reach a branch condition
			v, _ := c.(ssa.Value)
			if v != nil && reachesBranch(v) {
				got[g]++
			}
		}
	})
	}
	// both acceptance loops (tuple without / with condition) decide on the restriction's type and condition
	for _, g := range validatorReference["validateCondition"] {
		r.Check(got[g] >= 2, "internal/validation.validateCondition consults RelationReference."+g, e.pos(fn.Pos()), fmt.Sprintf("%d deciding uses (both acceptance loops)", got[g]), fmt.Sprintf("validateCondition decides on the type restriction's %s in only %d of its 2 acceptance loops: a condition allowed for one user type is accepted on tuples of another", g, got[g]))
	}
}

// reachesBranch: v flows (through comparisons, phis, boolean ops) into an If condition.
func reachesBranch(v ssa.Value) bool {
	seen := map[ssa.Value]bool{}
	var rec func(ssa.Value, int) bool
	rec = func(v ssa.Value, d int) bool {
		if v == nil || seen[v] || d > 6 || v.Referrers() == nil {
			return false
		}
		seen[v] = true
		for _, ref := range *v.Referrers() {
			switch x := ref.(type) {
			case *ssa.If:
				return true
			case *ssa.BinOp:
				if rec(x, d+1) {
					return true
				}
			case *ssa.UnOp:
				if rec(x, d+1) {
					return true
				}
			case *ssa.Phi:
				if rec(x, d+1) {
					return true
				}
			}
		}
		return false
	}
	return rec(v, 0)
}


// sameePackageRegion: fn plus the functions of its own package it statically calls, to the given depth.
func sameePackageRegion(fn *ssa.Function, depth int) []*ssa.Function {
	seen := map[*ssa.Function]bool{fn: true}
	out := []*ssa.Function{fn}
	frontier := []*ssa.Function{fn}
	for d := 0; d < depth; d++ {
		var next []*ssa.Function
		for _, f := range frontier {
			eachInstr(f, true, func(in ssa.Instruction) {
				c, ok := in.(ssa.CallInstruction)
				if !ok {
					return
				}
				g := staticCallee(c)
				if g == nil || seen[g] || len(g.Blocks) == 0 || pkgOf(g) != pkgOf(fn) || g.Parent() != nil {
					return
				}
				seen[g] = true
				out = append(out, g)
				next = append(next, g)
			})
		}
		frontier = next
	}
	return out
}

package main

// C25 / C01.3: condition evaluation is fail-closed and merges contexts in the documented order.

import (
	"fmt"
	"strings"

	"golang.org/x/tools/go/ssa"
)

// blocksReachableFrom returns the set of blocks reachable from b (inclusive).
func blocksReachableFrom(b *ssa.BasicBlock) map[*ssa.BasicBlock]bool {
	seen := map[*ssa.BasicBlock]bool{b: true}
	work := []*ssa.BasicBlock{b}
	for len(work) > 0 {
		x := work[len(work)-1]
		work = work[:len(work)-1]
		for _, s := range x.Succs {
			if !seen[s] {
				seen[s] = true
				work = append(work, s)
			}
		}
	}
	return seen
}

// errorLeadsToFailure: on every edge where the error produced by call is known to be non-nil,
// no success return (nil error) of fn is reachable.
func errorLeadsToFailure(fn *ssa.Function, call ssa.Value) (bool, bool) {
	found := false
	ok := true
	succ := returnSites(fn)
	for _, b := range fn.Blocks {
		for si := range b.Succs {
			for _, f := range edgeFacts(b, si) {
				if f.Kind != "nil" || f.Positive || !isErrorType(f.X.Type()) {
					continue
				}
				if !derivesFrom(f.X, func(v ssa.Value) bool { return v == call }) {
					continue
				}
				found = true
				reach := blocksReachableFrom(b.Succs[si])
				for _, rs := range succ {
					if rs.isSuccess() && reach[rs.At.Block()] {
						ok = false
					}
				}
			}
		}
	}
	return ok, found
}

func ruleConditionEval(e *Engine, r *Reporter) {
	r.Rule("condition-fail-closed", "EvaluateTupleCondition returns true only for a tuple without condition or for a condition evaluated without error and without missing parameters; every error return carries false", 4)
	fn := e.Func("internal/condition/eval", "EvaluateTupleCondition")
	var evalCall ssa.Value
	eachInstr(fn, false, func(in ssa.Instruction) {
		if c, ok := in.(*ssa.Call); ok {
			if g := staticCallee(c); g != nil && g.Name() == "Evaluate" {
				evalCall = c
			}
		}
	})
	if evalCall == nil {
		blind("condition-fail-closed: Evaluate call not found")
	}
	for i, rs := range returnSites(fn) {
		if len(rs.Results) != 2 {
			continue
		}
		key := fmt.Sprintf("%s | return #%d", fname(fn), i)
		res, errv := rs.Results[0], rs.Results[1]
		if !isNilConst(errv) {
			bv, isC := constBool(res)
			r.Check(isC && !bv, key, e.instrPos(rs.At), "error return carries false", "an error return can carry a non-false decision ("+describe_(res)+"): callers that only look at the boolean would treat an unevaluable condition as satisfied")
			continue
		}
		if bv, isC := constBool(res); isC {
			if !bv {
				r.OK(key, e.instrPos(rs.At), "returns false")
				continue
			}
			// `true, nil` only for "no condition"
			g, _ := mustPass(fn, rs.At, cutSpec{edge: func(f Fact) bool {
				if f.Kind != "eq" || !f.Positive {
					return false
				}
				s, ok := constString(f.Y)
				return ok && s == "" && strings.HasSuffix(describe_(f.X), "GetCondition().GetName()")
			}})
			r.Check(g, key, e.instrPos(rs.At), "constant true only when the tuple has no condition", "returns (true, nil) on a path where the tuple may carry a condition that was not evaluated")
			continue
		}
		// computed decision: behind Evaluate err == nil and no missing parameters
		g1, _ := mustPass(fn, rs.At, cutSpec{edge: func(f Fact) bool {
			return f.Kind == "nil" && f.Positive && derivesFrom(f.X, func(v ssa.Value) bool { return v == evalCall })
		}})
		g2, _ := mustPass(fn, rs.At, cutSpec{edge: func(f Fact) bool {
			d := describeFact(f)
			return strings.HasPrefix(d, "!nonempty(") && strings.Contains(d, "MissingParameters")
		}})
		fromEval := strings.Contains(describe_(res), "ConditionMet")
		r.Check(g1 && g2 && fromEval, key, e.instrPos(rs.At), "decision = ConditionMet behind err==nil and no missing parameters", fmt.Sprintf("the computed decision is returned without both guards (evaluation error checked: %v, missing-parameter test: %v, value is ConditionMet: %v)", g1, g2, fromEval))
	}

	r.Rule("context-merge-order", "the request context is the base map and the tuple's stored context is applied after it (later wins): EvaluateTupleCondition passes request fields first, Evaluate clones contextMaps[0] and copies contextMaps[1:] over it in order", 3)
	// (1) in EvaluateTupleCondition, the variadic slice given to Evaluate
	ec := evalCall.(*ssa.Call)
	arg := ec.Call.Args[len(ec.Call.Args)-1]
	d := describe_(arg)
	// expected shape: append(<request fields>, [<tuple condition context fields>])
	iApp := strings.Index(d, "append(")
	okOrder := false
	if iApp >= 0 {
		rest := d[iApp+len("append("):]
		iReq := strings.Index(rest, "arg3")
		iTup := strings.Index(rest, "GetCondition().GetContext()")
		okOrder = iTup >= 0 && (iReq < 0 || iReq < iTup) && !strings.HasPrefix(rest, "[") // base is not the tuple context
		if strings.HasPrefix(strings.TrimSpace(rest), "[arg1") {
			okOrder = false
		}
	}
	r.Check(okOrder, fname(fn)+" | request context first, tuple context appended", e.instrPos(ec), "Evaluate(ctx, requestFields, tupleFields)", "the stored tuple context is not appended after the request context: on a shared parameter the request value would override the stored one ("+d+")")
	// (2) Evaluate: Clone(contextMaps[0]) then Copy(cloned, contextMaps[1:][i])
	ev := e.Func("internal/condition", "EvaluableCondition.Evaluate")
	var cloneOK, copyOK bool
	eachInstr(ev, false, func(in ssa.Instruction) {
		c, ok := in.(*ssa.Call)
		if !ok {
			return
		}
		g := c.Call.StaticCallee()
		if g == nil {
			return
		}
		g = canon(g)
		if g.Pkg == nil || g.Pkg.Pkg.Path() != "maps" {
			return
		}
		switch g.Name() {
		case "Clone":
			dd := describe_(c.Call.Args[0])
			if strings.Contains(dd, "arg1[0]") {
				cloneOK = true
			}
		case "Copy":
			dst, src := describe_(c.Call.Args[0]), describe_(c.Call.Args[1])
			if strings.Contains(dst, "maps.Clone") && strings.Contains(src, "arg1[") && !strings.Contains(src, "maps.Clone") {
				copyOK = true
			}
		}
	})
	r.Check(cloneOK, fname(ev)+" | base is a clone of the first map", e.pos(ev.Pos()), "maps.Clone(contextMaps[0])", "the merge does not start from a copy of the first context map")
	r.Check(copyOK, fname(ev)+" | later maps copied over the base", e.pos(ev.Pos()), "maps.Copy(base, later)", "later context maps are not copied over the base (or the direction is reversed): precedence of the stored context is lost")

	r.Rule("conversion-errors-fail", "in CastContextToTypedParameters and Evaluate every error of decoding/converting/compiling/evaluating leads to a non-nil error return", 5)
	for _, spec := range []struct{ pkg, fn string; callees []string }{
		{"internal/condition", "EvaluableCondition.CastContextToTypedParameters", []string{"DecodeParameterType", "ConvertValue"}},
		{"internal/condition", "EvaluableCondition.Evaluate", []string{"Compile", "CastContextToTypedParameters", "PartialVars", "ContextEval", "ConvertToNative"}},
	} {
		f := e.Func(spec.pkg, spec.fn)
		eachInstr(f, false, func(in ssa.Instruction) {
			c, ok := in.(*ssa.Call)
			if !ok {
				return
			}
			o := calleeObj(c)
			if o == nil {
				return
			}
			for _, want := range spec.callees {
				if o.Name() != want {
					continue
				}
				okp, found := errorLeadsToFailure(f, c)
				r.Check(found && okp, fmt.Sprintf("%s | error of %s", fname(f), want), e.instrPos(in), "non-nil error cannot reach a success return",
					fmt.Sprintf("the error of %s is not turned into a failure (checked: %v): a value that cannot be converted/evaluated would be treated as usable", want, found))
			}
		})
	}
}

package main

// Storage-layer rules shared by C10, C12, C13, C14, C15, C16, C17, C31.

import (
	"fmt"
	"go/types"
	"regexp"
	"sort"
	"strings"

	"golang.org/x/tools/go/ssa"
)

var sqlBackends = []string{"sqlite", "mysql", "postgres"}

var sqlPkgs = map[string]bool{
	modPath + "/pkg/storage/sqlite":    true,
	modPath + "/pkg/storage/mysql":     true,
	modPath + "/pkg/storage/postgres":  true,
	modPath + "/pkg/storage/sqlcommon": true,
}

// sqlStmtsDeep: statements built in fn, its closures and (to the given depth) the SQL-package
// functions it statically calls.
func (e *Engine) sqlStmtsDeep(fn *ssa.Function, depth int) []*sqlStmt {
	seen := map[*ssa.Function]bool{}
	var out []*sqlStmt
	var rec func(f *ssa.Function, d int)
	rec = func(f *ssa.Function, d int) {
		if seen[f] || f.Blocks == nil {
			return
		}
		seen[f] = true
		out = append(out, e.sqlStatements(f)...)
		if d == 0 {
			return
		}
		eachInstr(f, true, func(in ssa.Instruction) {
			if c, ok := in.(ssa.CallInstruction); ok {
				if g := staticCallee(c); g != nil && g.Parent() == nil && sqlPkgs[pkgOf(g)] {
					rec(g, d-1)
				}
			}
		})
	}
	rec(fn, depth)
	return out
}

// allSQLStatements enumerates the statements of every declared function of the SQL packages.
func (e *Engine) allSQLStatements() []*sqlStmt {
	var out []*sqlStmt
	for _, fn := range e.Fns {
		if fn.Parent() != nil || fn.Origin() != nil || !sqlPkgs[pkgOf(fn)] {
			continue
		}
		for _, st := range e.sqlStatements(fn) {
			// a statement a factory only starts and returns is analysed where it is completed (at the callers)
			partial := len(st.Exec) > 0 && len(st.RunWith) == 0
			for _, x := range st.Exec {
				if x != "returned" {
					partial = false
				}
			}
			if partial {
				if _, isBuilder := isSqBuilderType(fn.Signature.Results().At(0).Type()); fn.Signature.Results().Len() == 1 && isBuilder && len(st.Wheres) == 0 {
					continue
				}
			}
			out = append(out, st)
		}
	}
	return out
}

func table(s *sqlStmt) string { return stripQuotes(s.Table) }

// paramOfType returns the describe-name ("argN") of fn's parameter whose type is the named type.
func paramOfType(fn *ssa.Function, n *types.Named) (string, *ssa.Parameter) {
	for _, p := range fn.Params {
		t := p.Type()
		if ptr, ok := t.(*types.Pointer); ok {
			t = ptr.Elem()
		}
		if types.Identical(t, n) {
			return paramName(p), p
		}
	}
	return "", nil
}

func structFields(n *types.Named) []string {
	st, ok := n.Underlying().(*types.Struct)
	if !ok {
		return nil
	}
	var out []string
	for i := 0; i < st.NumFields(); i++ {
		out = append(out, st.Field(i).Name())
	}
	return out
}

func mentions(text, arg, field string) bool {
	re := regexp.MustCompile(regexp.QuoteMeta(arg+"."+field) + `([^A-Za-z0-9_]|$)`)
	return re.MatchString(text)
}

// firstStringParam returns the first parameter of type string (the store id in every
// datastore method).
func firstStringParam(fn *ssa.Function) *ssa.Parameter {
	for _, p := range fn.Params {
		if b, ok := p.Type().Underlying().(*types.Basic); ok && b.Kind() == types.String {
			return p
		}
	}
	return nil
}

type readMethodSpec struct {
	name   string // label
	impl   string // method implementing it in each backend
	filter string // filter struct in pkg/storage
}

var readMethods = []readMethodSpec{
	{"Read/ReadPage", "read", "ReadFilter"},
	{"ReadUserTuple", "ReadUserTuple", "ReadUserTupleFilter"},
	{"ReadUsersetTuples", "ReadUsersetTuples", "ReadUsersetTuplesFilter"},
	{"ReadStartingWithUser", "ReadStartingWithUser", "ReadStartingWithUserFilter"},
}

// shapeOf classifies under which shape a collection-typed filter field is applied, from the
// canonical guard texts that test exactly that field.
func shapeOf(guardTexts []string, arg, field string) string {
	f := arg + "." + field
	shape := "always"
	for _, g := range guardTexts {
		g = strings.TrimPrefix(g, "!")
		switch g {
		case "nonempty(" + f + ")", "positive(" + f + ".Size())":
			return "nonempty"
		case "nonnil(" + f + ")":
			shape = "nonnil"
		}
	}
	return shape
}

// ifTexts returns the canonical texts of all If conditions in fn and its closures.
func ifTexts(fn *ssa.Function) []string {
	var out []string
	for _, g := range withClosures(fn) {
		for _, b := range g.Blocks {
			if len(b.Succs) == 2 {
				for _, f := range edgeFacts(b, 0) {
					out = append(out, describeFact(f))
				}
			}
		}
	}
	return out
}

// emitSite is a place where a memory read method adds a tuple to its result.
type emitSite struct {
	in   ssa.Instruction
	kind string
}

func isTupleRecordSlice(t types.Type) bool {
	sl, ok := t.Underlying().(*types.Slice)
	if !ok {
		return false
	}
	return typeBaseName(sl.Elem()) == "TupleRecord"
}

func memoryEmitSites(fn *ssa.Function) []emitSite {
	var out []emitSite
	eachInstr(fn, false, func(in ssa.Instruction) {
		c, ok := in.(*ssa.Call)
		if !ok {
			return
		}
		if b, ok := c.Call.Value.(*ssa.Builtin); ok {
			if (b.Name() == "append" || b.Name() == "copy") && isTupleRecordSlice(c.Call.Args[0].Type()) {
				out = append(out, emitSite{in, b.Name()})
			}
			return
		}
		if f := c.Call.StaticCallee(); f != nil && f.Name() == "AsTuple" {
			// a tuple returned directly
			// (with deferred calls the result is spilled to the result slot before the return)
			for _, r := range *c.Referrers() {
				switch x := r.(type) {
				case *ssa.Return:
					out = append(out, emitSite{in, "return"})
				case *ssa.Store:
					if _, ok := x.Addr.(*ssa.Alloc); ok && x.Val == ssa.Value(c) {
						out = append(out, emitSite{in, "return"})
					}
				}
			}
		}
	})
	return out
}

// reachNoBack: can `to` be reached from block `from` without traversing a back edge?
func reachNoBack(from, to *ssa.BasicBlock) bool {
	if from == to {
		return true
	}
	seen := map[*ssa.BasicBlock]bool{from: true}
	work := []*ssa.BasicBlock{from}
	for len(work) > 0 {
		x := work[len(work)-1]
		work = work[:len(work)-1]
		for _, s := range x.Succs {
			if s.Dominates(x) { // back edge
				continue
			}
			if s == to {
				return true
			}
			if !seen[s] {
				seen[s] = true
				work = append(work, s)
			}
		}
	}
	return false
}

// decisiveFor: the If ending block a decides (within one loop iteration) whether block b runs.
func decisiveFor(a, b *ssa.BasicBlock) bool {
	if len(a.Succs) != 2 {
		return false
	}
	back := func(s *ssa.BasicBlock) bool { return s.Dominates(a) }
	r0 := !back(a.Succs[0]) && reachNoBack(a.Succs[0], b)
	r1 := !back(a.Succs[1]) && reachNoBack(a.Succs[1], b)
	return r0 != r1
}

func ruleFilterEffect(e *Engine, r *Reporter) {
	r.Rule("filter-effect", "every field of the read filter constrains the result in every backend (SQL: contributes a WHERE; memory: a branch on it decides every emit site)", 40)
	for _, m := range readMethods {
		ft := e.Named("pkg/storage", m.filter)
		fields := structFields(ft)
		for _, be := range sqlBackends {
			fn := e.Func("pkg/storage/"+be, "Datastore."+m.impl)
			arg, _ := paramOfType(fn, ft)
			if arg == "" {
				blind("%s: no parameter of type %s", fname(fn), m.filter)
			}
			var sel *sqlStmt
			for _, st := range e.sqlStmtsDeep(fn, 1) {
				if st.Verb == "SELECT" && table(st) == "tuple" {
					sel = st
				}
			}
			if sel == nil {
				blind("%s: no SELECT on tuple found", fname(fn))
			}
			text := sel.render()
			for _, f := range fields {
				used := false
				for _, w := range sel.Wheres {
					if mentions(w.Text, arg, f) {
						used = true
					}
				}
				r.Check(used, fmt.Sprintf("%s.%s field=%s", be, m.name, f), e.pos(sel.Root.Pos()),
					"constrains a WHERE predicate", "no WHERE predicate of the tuple SELECT depends on this filter field: "+oneLine(text))
			}
		}
		// memory
		fn := e.Func("pkg/storage/memory", "MemoryBackend."+m.impl)
		arg, _ := paramOfType(fn, ft)
		if arg == "" {
			blind("%s: no parameter of type %s", fname(fn), m.filter)
		}
		sites := memoryEmitSites(fn)
		if len(sites) == 0 {
			blind("%s: no emit site found", fname(fn))
		}
		for _, f := range fields {
			ok := true
			var badPos, badKind string
			for _, s := range sites {
				decided := false
				for _, b := range fn.Blocks {
					if len(b.Succs) != 2 || !decisiveFor(b, s.in.Block()) {
						continue
					}
					for _, fact := range edgeFacts(b, 0) {
						if mentions(describeFact(fact), arg, f) {
							decided = true
						}
					}
				}
				if !decided {
					ok = false
					badPos, badKind = e.instrPos(s.in), s.kind
				}
			}
			pos := e.pos(fn.Pos())
			if !ok {
				pos = badPos
			}
			r.Check(ok, fmt.Sprintf("memory.%s field=%s", m.name, f), pos,
				fmt.Sprintf("a branch on the field decides each of the %d emit sites", len(sites)),
				fmt.Sprintf("the %s at %s adds tuples to the result on a path no test of filter.%s decides", badKind, badPos, f))
		}
	}
}

func oneLine(s string) string {
	return strings.Join(strings.Fields(s), " ")
}

func ruleGuardShape(e *Engine, r *Reporter) {
	r.Rule("guard-shape", "collection-typed filter fields are applied under the same shape (always / non-nil / non-empty) in all four backends", 6)
	for _, m := range readMethods {
		ft := e.Named("pkg/storage", m.filter)
		st := ft.Underlying().(*types.Struct)
		for i := 0; i < st.NumFields(); i++ {
			f := st.Field(i)
			switch f.Type().Underlying().(type) {
			case *types.Slice, *types.Interface, *types.Pointer, *types.Map:
			default:
				continue
			}
			shapes := map[string]string{}
			for _, be := range append([]string{"memory"}, sqlBackends...) {
				recv := "Datastore."
				if be == "memory" {
					recv = "MemoryBackend."
				}
				fn := e.Func("pkg/storage/"+be, recv+m.impl)
				arg, _ := paramOfType(fn, ft)
				shapes[be] = shapeOf(ifTexts(fn), arg, f.Name())
			}
			// majority
			count := map[string]int{}
			for _, s := range shapes {
				count[s]++
			}
			agree := len(count) == 1
			r.Check(agree, fmt.Sprintf("%s.%s", m.filter, f.Name()), e.pos(e.Func("pkg/storage/memory", "MemoryBackend."+m.impl).Pos()),
				fmt.Sprintf("all backends: %s", shapes["memory"]),
				fmt.Sprintf("backends disagree on when the filter applies: %v (an input in the gap — e.g. an empty but non-nil set — is answered differently)", sortedMap(shapes)))
		}
	}
}

func sortedMap(m map[string]string) string {
	var ks []string
	for k := range m {
		ks = append(ks, k)
	}
	sort.Strings(ks)
	var parts []string
	for _, k := range ks {
		parts = append(parts, k+"="+m[k])
	}
	return strings.Join(parts, " ")
}

// normaliseWhere renders the Eq-like predicates of a statement for mysql/postgres comparison.
func normaliseWhere(s *sqlStmt) []string {
	var out []string
	for _, w := range s.Wheres {
		switch w.Op {
		case "raw", "other", "Expr":
			continue
		}
		out = append(out, w.Text+" WHEN "+strings.Join(w.Guards, "&&"))
	}
	sort.Strings(out)
	return out
}

// ruleSiblingSQL compares mysql and postgres (same schema) statement by statement for the
// datastore methods both implement with their own SQL.
func ruleSiblingSQL(e *Engine, r *Reporter, methods []string, tables map[string]bool) {
	for _, m := range methods {
		fm := e.FuncOpt("pkg/storage/mysql", "Datastore."+m)
		fp := e.FuncOpt("pkg/storage/postgres", "Datastore."+m)
		if fm == nil || fp == nil {
			blind("sibling-sql: method %s missing in mysql or postgres", m)
		}
		pick := func(fn *ssa.Function) map[string][]string {
			out := map[string][]string{}
			for _, st := range e.sqlStmtsDeep(fn, 2) {
				if tables != nil && !tables[table(st)] {
					continue
				}
				k := st.Verb + " " + table(st)
				out[k] = append(out[k], normaliseWhere(st)...)
			}
			return out
		}
		a, b := pick(fm), pick(fp)
		keys := map[string]bool{}
		for k := range a {
			keys[k] = true
		}
		for k := range b {
			keys[k] = true
		}
		var ks []string
		for k := range keys {
			ks = append(ks, k)
		}
		sort.Strings(ks)
		for _, k := range ks {
			same := strings.Join(a[k], "\n") == strings.Join(b[k], "\n")
			r.Check(same, fmt.Sprintf("mysql~postgres %s %s", m, k), e.pos(fp.Pos()),
				fmt.Sprintf("%d predicates agree", len(a[k])),
				fmt.Sprintf("the two backends that share a schema build different predicates:\n      mysql:    %s\n      postgres: %s", strings.Join(a[k], " ; "), strings.Join(b[k], " ; ")))
		}
	}
}

// ---- store scoping (C16) ----------------------------------------------------------------------

var storeScopedTables = map[string]bool{"tuple": true, "changelog": true, "authorization_model": true, "assertion": true}

func isStoreParamText(v string, fn *ssa.Function) bool {
	p := firstStringParam(fn)
	if p == nil {
		return false
	}
	n := paramName(p)
	return v == n || v == "free:"+p.Name() || v == "<"+n+">"
}

func ruleStoreScoped(e *Engine, r *Reporter) {
	r.Rule("sql-store-scoped", "every statement on a store-scoped table is bound to the method's store parameter (WHERE store=… or INSERT column store)", 30)
	for _, st := range e.allSQLStatements() {
		if !storeScopedTables[table(st)] {
			continue
		}
		key := fmt.Sprintf("%s %s %s", fname(st.Top), st.Verb, table(st))
		switch st.Verb {
		case "SELECT", "UPDATE", "DELETE":
			ok := false
			detail := ""
			var rootGuards []string
			if st.Root != nil {
				rootGuards = describeGuards(st.Root.Block())
			}
			for _, w := range st.Wheres {
				// the predicate must be applied whenever the statement is built: no guard beyond the root's own
				if v, has := w.Vals["store"]; has && len(diffStrings(w.Guards, rootGuards)) == 0 {
					detail = v
					if isStoreParamText(v, st.Top) {
						ok = true
					}
				}
			}
			r.Check(ok, key, e.pos(st.Root.Pos()), "WHERE store = "+detail, "no unconditional WHERE store=<store parameter> on this statement: "+oneLine(st.render()))
		case "INSERT":
			idx := -1
			for i, c := range st.Columns {
				if c == "store" {
					idx = i
				}
			}
			if idx < 0 {
				r.Bad(key, e.pos(st.Root.Pos()), "INSERT has no store column: "+oneLine(st.render()))
				continue
			}
			vals := e.insertRowValues(st)
			if len(vals) == 0 {
				r.Bad(key, e.pos(st.Root.Pos()), "cannot resolve the inserted rows")
				continue
			}
			ok := true
			var got []string
			for _, row := range vals {
				if idx >= len(row.elems) || !isStoreParamRoot(row.elems[idx], row.fn) {
					ok = false
				}
				if idx < len(row.elems) {
					got = append(got, describe_(row.elems[idx]))
				}
			}
			r.Check(ok, key, e.pos(st.Root.Pos()), fmt.Sprintf("store column bound to the store parameter in %d row shapes", len(vals)),
				fmt.Sprintf("store column is not bound to the store parameter: %v", got))
		}
	}
}

func guardsMention(gs []string, s string) bool {
	for _, g := range gs {
		if strings.Contains(g, s) {
			return true
		}
	}
	return false
}

// isStoreParamRoot: v is the first string parameter of its (top-level) function, possibly
// captured by a closure.
func isStoreParamRoot(v ssa.Value, fn *ssa.Function) bool {
	v = unwrap(v)
	switch x := v.(type) {
	case *ssa.Parameter:
		return x == firstStringParam(x.Parent())
	case *ssa.FreeVar:
		top := topLevel(x.Parent())
		p := firstStringParam(top)
		return p != nil && p.Name() == x.Name()
	case *ssa.UnOp:
		return isStoreParamRoot(x.X, fn)
	case *ssa.Alloc:
		sts := storesTo(x)
		return len(sts) == 1 && isStoreParamRoot(sts[0].Val, fn)
	}
	return false
}

type rowShape struct {
	elems []ssa.Value
	fn    *ssa.Function
	pos   ssa.Value
}

// insertRowValues resolves the rows given to Values(...) of an INSERT: either direct arguments or
// []interface{} literals appended to a slice that reaches Values(item...), across one call boundary.
func (e *Engine) insertRowValues(st *sqlStmt) []rowShape {
	var out []rowShape
	for _, fn := range withClosures(st.Top) {
		for _, b := range fn.Blocks {
			for _, in := range b.Instrs {
				c, ok := in.(*ssa.Call)
				if !ok {
					continue
				}
				f := c.Call.StaticCallee()
				if f == nil || f.Name() != "Values" || len(c.Call.Args) < 2 || !st.members[c.Call.Args[0]] && !st.members[ssa.Value(c)] {
					continue
				}
				arg := c.Call.Args[1]
				if elems, ok := sliceLitElems(arg); ok {
					out = append(out, rowShape{elems, fn, c})
					continue
				}
				// item... where item ranges over a [][]interface{}
				for _, rows := range e.rowLiterals(arg, 0, map[ssa.Value]bool{}) {
					out = append(out, rows)
				}
			}
		}
	}
	return out
}

// rowLiterals finds the []interface{} literals a row value may denote.
func (e *Engine) rowLiterals(v ssa.Value, depth int, seen map[ssa.Value]bool) []rowShape {
	v = unwrap(v)
	if v == nil || seen[v] || depth > 12 {
		return nil
	}
	seen[v] = true
	var out []rowShape
	if elems, ok := sliceLitElems(v); ok {
		if _, isIface := v.Type().Underlying().(*types.Slice).Elem().Underlying().(*types.Interface); isIface {
			var fn *ssa.Function
			if in, ok := v.(ssa.Instruction); ok {
				fn = in.Parent()
			}
			return []rowShape{{elems, fn, v}}
		}
		for _, el := range elems {
			out = append(out, e.rowLiterals(el, depth+1, seen)...)
		}
		return out
	}
	switch x := v.(type) {
	case *ssa.Phi:
		for _, ed := range x.Edges {
			out = append(out, e.rowLiterals(ed, depth+1, seen)...)
		}
	case *ssa.UnOp:
		for _, s := range storesTo(x.X) {
			out = append(out, e.rowLiterals(s.Val, depth+1, seen)...)
		}
		out = append(out, e.rowLiterals(x.X, depth+1, seen)...)
	case *ssa.IndexAddr:
		out = append(out, e.rowLiterals(x.X, depth+1, seen)...)
	case *ssa.Index:
		out = append(out, e.rowLiterals(x.X, depth+1, seen)...)
	case *ssa.Slice:
		out = append(out, e.rowLiterals(x.X, depth+1, seen)...)
	case *ssa.Extract:
		if c, ok := x.Tuple.(*ssa.Call); ok {
			if f := c.Call.StaticCallee(); f != nil && f.Blocks != nil && e.inModule(f) {
				for _, b := range f.Blocks {
					if ret, ok := b.Instrs[len(b.Instrs)-1].(*ssa.Return); ok && x.Index < len(ret.Results) {
						out = append(out, e.rowLiterals(ret.Results[x.Index], depth+1, seen)...)
					}
				}
			}
		}
		if nx, ok := x.Tuple.(*ssa.Next); ok {
			if rg, ok := nx.Iter.(*ssa.Range); ok {
				out = append(out, e.rowLiterals(rg.X, depth+1, seen)...)
			}
		}
	case *ssa.Call:
		if b, ok := x.Call.Value.(*ssa.Builtin); ok && b.Name() == "append" {
			out = append(out, e.rowLiterals(x.Call.Args[0], depth+1, seen)...)
			if len(x.Call.Args) > 1 {
				out = append(out, e.rowLiterals(x.Call.Args[1], depth+1, seen)...)
			}
		}
	case *ssa.Parameter:
		// the element variable of a range-over-func loop (`for batch := range slices.Chunk(rows, n)`): the body is a
		// synthesized closure and the variable its parameter; continue at the collection the iterator was built from
		if mc := e.parent[x.Parent()]; mc != nil && mc.Referrers() != nil {
			for _, ref := range *mc.Referrers() {
				call, ok := ref.(*ssa.Call)
				if !ok || len(call.Call.Args) == 0 || call.Call.Args[0] != ssa.Value(mc) {
					continue
				}
				if seq, ok := unwrap(call.Call.Value).(*ssa.Call); ok {
					if g := seq.Call.StaticCallee(); g != nil && canon(g).Pkg != nil && len(seq.Call.Args) > 0 {
						switch canon(g).Pkg.Pkg.Path() {
						case "slices", "maps", "iter":
							out = append(out, e.rowLiterals(seq.Call.Args[0], depth+1, seen)...)
						}
					}
				}
			}
		}
		fn := x.Parent()
		idx := -1
		for i, p := range fn.Params {
			if p == x {
				idx = i
			}
		}
		for _, cs := range e.callers[canon(fn)] {
			args := cs.Common().Args
			if idx >= 0 && idx < len(args) {
				out = append(out, e.rowLiterals(args[idx], depth+1, seen)...)
			}
		}
	case *ssa.FreeVar:
		fn := x.Parent()
		if mc := e.parent[fn]; mc != nil {
			for i, fv := range fn.FreeVars {
				if fv == x && i < len(mc.Bindings) {
					out = append(out, e.rowLiterals(mc.Bindings[i], depth+1, seen)...)
				}
			}
		}
	case *ssa.Alloc:
		for _, s := range storesTo(x) {
			out = append(out, e.rowLiterals(s.Val, depth+1, seen)...)
		}
	}
	return out
}

package main

// C08: the Check query cache.

import (
	"fmt"
	"go/types"
	"strings"

	"golang.org/x/tools/go/ssa"
)

func callFactNamed(f Fact, name string, positive bool) bool {
	if f.Kind != "call" || f.Call == nil || f.Positive != positive {
		return false
	}
	o := calleeObj(f.Call)
	return o != nil && o.Name() == name
}

// locateInRegion finds the first instruction satisfying pred in fn, or in a same-package function fn calls
// directly (one level).  via is the call in fn leading to the helper, nil when found in fn itself.
func locateInRegion(fn *ssa.Function, pred func(ssa.Instruction) bool) (at ssa.Instruction, via ssa.CallInstruction) {
	eachInstr(fn, false, func(in ssa.Instruction) {
		if at == nil && pred(in) {
			at = in
		}
	})
	if at != nil {
		return at, nil
	}
	eachInstr(fn, false, func(in ssa.Instruction) {
		c, ok := in.(ssa.CallInstruction)
		if !ok || at != nil {
			return
		}
		g := staticCallee(c)
		if g == nil || len(g.Blocks) == 0 || pkgOf(g) != pkgOf(fn) || g == fn {
			return
		}
		eachInstr(g, false, func(in2 ssa.Instruction) {
			if at == nil && pred(in2) {
				at, via = in2, c
			}
		})
	})
	return at, via
}

// atCaller maps a value of the helper back to the caller's argument when it is (derived from) a parameter.
func atCaller(v ssa.Value, via ssa.CallInstruction) ssa.Value {
	if via == nil {
		return v
	}
	g := staticCallee(via)
	var out ssa.Value
	derivesFrom(v, func(x ssa.Value) bool {
		if p, ok := x.(*ssa.Parameter); ok && out == nil {
			for i, q := range g.Params {
				if q == p && i < len(via.Common().Args) {
					out = via.Common().Args[i]
				}
			}
		}
		return false
	})
	if out != nil {
		return out
	}
	return v
}

func ruleQueryCacheV1(e *Engine, r *Reporter) {
	r.Rule("querycache-v1-guards", "CachedCheckResolver.ResolveCheck stores a response only when the delegate returned no error and the response is not cycle-dependent, and serves a cached response only when it is newer than the request's last invalidation time", 3)
	fn := e.Func("internal/graph", "CachedCheckResolver.ResolveCheck")
	var get, delegate ssa.CallInstruction
	eachInstr(fn, false, func(in ssa.Instruction) {
		c, ok := in.(ssa.CallInstruction)
		if !ok {
			return
		}
		if isInMemoryCacheGet(c) {
			get = c
		}
		if c.Common().IsInvoke() && c.Common().Method.Name() == "ResolveCheck" {
			delegate = c
		}
	})
	setAt, via := locateInRegion(fn, func(in ssa.Instruction) bool {
		c, ok := in.(ssa.CallInstruction)
		return ok && isCacheSet(c)
	})
	if setAt != nil && delegate == nil {
		// the resolve-and-store stage was split off: the delegate call sits with the Set
		eachInstr(setAt.Parent(), false, func(in ssa.Instruction) {
			if c, ok := in.(ssa.CallInstruction); ok && c.Common().IsInvoke() && c.Common().Method.Name() == "ResolveCheck" {
				delegate = c
			}
		})
	}
	if setAt == nil || get == nil || delegate == nil {
		blind("querycache-v1-guards: cache.Set / cache.Get / delegate call not found in %s", fname(fn))
	}
	set := setAt.(ssa.CallInstruction)
	cyc := cutSpec{edge: func(f Fact) bool { return callFactNamed(f, "GetCycleDetected", false) }}
	g1, _ := mustPass(set.Parent(), set, cyc)
	if !g1 && via != nil {
		g1, _ = mustPass(fn, via, cyc)
	}
	r.Check(g1, fname(fn)+" | Set behind !CycleDetected", e.instrPos(set), "cycle-dependent responses are not stored", "a response whose value depends on the dispatch path (cycle cut) can be stored under the path-independent sub-problem key and later served to a request that reaches the sub-problem by another path")
	var anchor ssa.Instruction = set
	anchorFn := fn
	if via != nil {
		anchor = via
	}
	if delegate.Parent() == set.Parent() { // both in the same (helper) function: judged there
		anchor, anchorFn = set, set.Parent()
	}
	g2, _ := mustPass(anchorFn, anchor, cutSpec{edge: func(f Fact) bool {
		return f.Kind == "nil" && f.Positive && derivesFrom(f.X, func(v ssa.Value) bool { return v == delegate.(ssa.Value) })
	}})
	r.Check(g2, fname(fn)+" | Set behind err==nil", e.instrPos(set), "only successful resolutions are stored", "a failed resolution can be stored in the query cache")
	// the stored value derives from the delegate's response for this request
	stored := describe_(set.Common().Args[1])
	if via != nil {
		// the entry is built in the helper from a parameter: what the caller passes for it
		for _, a := range via.Common().Args {
			stored += " <- " + describe_(a)
		}
	}
	r.Check(strings.Contains(stored, "ResolveCheck("), fname(fn)+" | stored value is the delegate's response", e.instrPos(set), "stores a clone of the delegate response", "the stored entry does not derive from the delegate's response: "+stored)
	// serving: every success return whose value derives from the cache lookup is behind LastModified.After(...)
	n := 0
	for i, rs := range returnSites(fn) {
		if len(rs.Results) == 0 || !derivesThroughCalls(rs.Results[0], get.(ssa.Value)) {
			continue
		}
		n++
		g, _ := mustPass(fn, rs.At, cutSpec{edge: func(f Fact) bool {
			if f.Kind != "call" && f.Kind != "bool" {
				return false
			}
			d := describe_(f.X)
			return f.Positive && strings.Contains(d, ".After(") && strings.Contains(d, "LastCacheInvalidationTime")
		}})
		r.Check(g, fmt.Sprintf("%s | cached return #%d behind validity test", fname(fn), i), e.instrPos(rs.At), "served only when LastModified.After(LastCacheInvalidationTime)", "a cached response can be served although it is not newer than the request's invalidation time")
	}
	if n == 0 {
		r.Bad(fname(fn)+" | cached return", e.pos(fn.Pos()), "no return serves the cached entry (rule cannot locate the hit path)")
	}
}

// derivesThroughCalls: v is computed from src through method calls on it, type asserts, field loads.
func derivesThroughCalls(v ssa.Value, src ssa.Value) bool {
	seen := map[ssa.Value]bool{}
	var rec func(ssa.Value) bool
	rec = func(v ssa.Value) bool {
		if v == nil || seen[v] {
			return false
		}
		seen[v] = true
		if v == src {
			return true
		}
		switch x := v.(type) {
		case *ssa.Call:
			for _, a := range callArgs(x) {
				if rec(a) {
					return true
				}
			}
		case *ssa.TypeAssert:
			return rec(x.X)
		case *ssa.UnOp:
			return rec(x.X)
		case *ssa.FieldAddr:
			return rec(x.X)
		case *ssa.Field:
			return rec(x.X)
		case *ssa.Extract:
			return rec(x.Tuple)
		case *ssa.Phi:
			for _, ed := range x.Edges {
				if rec(ed) {
					return true
				}
			}
		case *ssa.MakeInterface:
			return rec(x.X)
		case *ssa.ChangeInterface:
			return rec(x.X)
		}
		return false
	}
	return rec(v)
}

// ruleCycleFlagMonotone: while results of several children are folded, the cycle marker is only
// ever raised; a non-constant assignment is allowed only immediately before returning.
func ruleCycleFlagMonotone(e *Engine, r *Reporter) {
	r.Rule("cycle-flag-monotone", "in internal/graph, an assignment to ResolutionMetadata.CycleDetected inside a folding loop is the constant true (the marker is sticky); a child's flag may be copied only on a path that returns without folding further children", 4)
	for _, fn := range e.Fns {
		if short(pkgOf(fn)) != "internal/graph" {
			continue
		}
		for _, b := range fn.Blocks {
			for _, in := range b.Instrs {
				st, ok := in.(*ssa.Store)
				if !ok {
					continue
				}
				fa, ok := st.Addr.(*ssa.FieldAddr)
				if !ok || fieldName(fa.X.Type(), fa.Field) != "CycleDetected" {
					continue
				}
				top := topLevel(fn)
				key := fmt.Sprintf("%s | CycleDetected store #%d", fname(top), storeOrdinal(top, st))
				if bv, ok := constBool(st.Val); ok && bv {
					r.OK(key, e.instrPos(in), "raised to true")
					continue
				}
				again, _ := reachable(fn, st, func(x ssa.Instruction) bool { return x == ssa.Instruction(st) }, cutSpec{})
				r.Check(!again, key, e.instrPos(in), "copied on a terminal path", "the cycle marker of the accumulated result is overwritten with one child's value inside the folding loop: a later non-cyclic child clears it, and CachedCheckResolver then caches a path-dependent 'not allowed'")
			}
		}
	}
}

func storeOrdinal(top *ssa.Function, target *ssa.Store) int {
	n, res := 0, 0
	eachInstr(top, true, func(in ssa.Instruction) {
		st, ok := in.(*ssa.Store)
		if !ok {
			return
		}
		if fa, ok := st.Addr.(*ssa.FieldAddr); ok && fieldName(fa.X.Type(), fa.Field) == "CycleDetected" {
			if st == target {
				res = n
			}
			n++
		}
	})
	return res
}

// ruleEdgeCacheVisited: the weighted-graph engine caches an edge result under a key that does not
// encode the request-scoped visited map, so (a) a negative result is cached only when the edge was
// evaluated without the visited filter, and (b) ResolveEdge hands the raw visited map to a callee
// only where usesVisited holds.
func ruleEdgeCacheVisited(e *Engine, r *Reporter) {
	r.Rule("cached-value-depends", "internal/check: an edge result is cached under EdgeCacheKey (which cannot encode the request-scoped visited map) only if it is positive or was computed without the visited filter; ResolveEdge passes the raw visited map on only where usesVisited(edge, visited) holds", 3)
	uv := e.Func("internal/check", "usesVisited")
	for _, name := range []string{"Resolver.ResolveUnionEdges", "Resolver.ResolveRecursive"} {
		fn := e.Func("internal/check", name)
		var visitedP *ssa.Parameter
		for _, p := range fn.Params {
			if typeBaseName(p.Type()) == "Map" {
				visitedP = p
			}
		}
		n := 0
		for _, g := range withClosures(fn) {
			for _, b := range g.Blocks {
				for _, in := range b.Instrs {
					c, ok := in.(ssa.CallInstruction)
					if !ok || !isCacheSet(c) {
						continue
					}
					n++
					cut := cutSpec{edge: func(f Fact) bool {
						if callFactNamed(f, "GetAllowed", true) {
							return true
						}
						if f.Kind == "call" && !f.Positive && f.Call != nil && staticCallee(f.Call) == uv {
							return true
						}
						if f.Kind == "nil" && f.Positive && visitedP != nil {
							d := describe_(f.X)
							return d == paramName(visitedP) || d == "free:"+visitedP.Name()
						}
						return false
					}}
					ok2, _ := mustPass(g, in, cut)
					r.Check(ok2, fmt.Sprintf("internal/check.(*Resolver).%s param=visited", strings.TrimPrefix(name, "Resolver.")), e.instrPos(in),
						"negative results are cached only when computed without the visited filter", "a 'not allowed' edge result computed while the request-scoped visited filter was active can be stored under a key that ignores that filter and later served to another request")
				}
			}
		}
		if n == 0 {
			blind("cached-value-depends: no cache.Set in %s", name)
		}
	}
	// (b) raw visited only behind usesVisited
	re := e.Func("internal/check", "Resolver.ResolveEdge")
	var vp *ssa.Parameter
	for _, p := range re.Params {
		if typeBaseName(p.Type()) == "Map" {
			vp = p
		}
	}
	if vp == nil {
		blind("cached-value-depends: ResolveEdge has no visited parameter")
	}
	ok := true
	var bad ssa.Instruction
	n := 0
	eachInstr(re, false, func(in ssa.Instruction) {
		c, isCall := in.(ssa.CallInstruction)
		if !isCall || staticCallee(c) == uv {
			return
		}
		for _, a := range c.Common().Args {
			if a == ssa.Value(vp) {
				n++
				g, _ := mustPass(re, in, cutSpec{edge: func(f Fact) bool {
					return f.Kind == "call" && f.Positive && f.Call != nil && staticCallee(f.Call) == uv
				}})
				if !g {
					ok = false
					bad = in
				}
			}
		}
	})
	pos := e.pos(re.Pos())
	if bad != nil {
		pos = e.instrPos(bad)
	}
	r.Check(ok, "internal/check.(*Resolver).ResolveEdge raw visited", pos, "callees receive the visited map only through the usesVisited-guarded variable", "a callee receives the request's visited map although usesVisited(edge, visited) is false for this edge: the de-duplication filter then prunes usersets for a result that the caching guard believes to be filter-independent")
}

// ruleRequestConstructedByConstructor: request structs whose cache identity lives in unexported
// fields may be built as composite literals only inside their own package (constructor/clone).
func ruleRequestConstructedByConstructor(e *Engine, r *Reporter) {
	r.Rule("request-built-by-constructor", "graph.ResolveCheckRequest and check.Request carry their cache identity (invariantCacheKey, cacheKey) in unexported fields that only NewResolveCheckRequest / NewRequest / clone compute: outside their package they are never built as composite literals", 1)
	targets := map[string]string{"ResolveCheckRequest": "internal/graph", "Request": "internal/check"}
	n := 0
	for _, p := range e.modulePackages(false) {
		for _, f := range p.Syntax {
			counts := map[string]int{}
			astInspectLits(f, func(lit *astCompositeLit) {
				t := p.TypesInfo.TypeOf(lit.node)
				if t == nil {
					return
				}
				nt, ok := derefType(t).(*types.Named)
				if !ok || nt.Obj().Pkg() == nil {
					return
				}
				home, isT := targets[nt.Obj().Name()]
				if !isT || short(nt.Obj().Pkg().Path()) != home {
					return
				}
				n++
				fd := funcDeclName(e.enclosingFuncDecl(p, lit.node.Pos()))
				k := fd + "|" + nt.Obj().Name()
				ord := counts[k]
				counts[k]++
				key := fmt.Sprintf("%s.%s | %s{…} #%d", short(p.PkgPath), fd, nt.Obj().Name(), ord)
				inside := short(p.PkgPath) == home
				r.Check(inside, key, e.pos(lit.node.Pos()), "built inside its own package", "a "+nt.Obj().Name()+" is built as a literal outside "+home+": its invariant cache key stays zero, so with the query cache on its sub-problems are cached under a key that ignores context, contextual tuples and model (answers leak between requests)")
			})
		}
	}
	if n == 0 {
		blind("request-built-by-constructor: no literal of the request types found at all")
	}
}

package main

// C12: SQL transaction typestate for the write path; C15/C17/C31 table-level obligations.

import (
	"fmt"
	"go/types"
	"strings"

	"golang.org/x/tools/go/ssa"
)

func methodCallNamed(in ssa.Instruction, names ...string) (ssa.CallInstruction, string, bool) {
	c, ok := in.(ssa.CallInstruction)
	if !ok {
		return nil, "", false
	}
	cc := c.Common()
	name := ""
	if cc.IsInvoke() {
		name = cc.Method.Name()
	} else if f := cc.StaticCallee(); f != nil && f.Signature.Recv() != nil {
		name = f.Name()
	} else {
		return nil, "", false
	}
	for _, n := range names {
		if n == name {
			return c, name, true
		}
	}
	return nil, "", false
}

func isTxType(t types.Type) bool {
	n := typeBaseName(t)
	switch n {
	case "Tx", "PgxExec", "PgxQuery":
		return true
	}
	return false
}

func isDBHandleType(t types.Type) bool {
	switch typeBaseName(t) {
	case "DB", "Pool":
		if p, ok := t.(*types.Pointer); ok {
			if nm, ok := p.Elem().(*types.Named); ok && nm.Obj().Pkg() != nil {
				pp := nm.Obj().Pkg().Path()
				return pp == "database/sql" || strings.Contains(pp, "pgxpool")
			}
		}
	}
	return false
}

// containsCall reports whether fn (with closures) contains a method call with one of the names.
func containsCall(fn *ssa.Function, names ...string) bool {
	found := false
	eachInstr(fn, true, func(in ssa.Instruction) {
		if _, _, ok := methodCallNamed(in, names...); ok {
			found = true
		}
	})
	return found
}

// closureArgContains: call has a closure argument whose body contains a call with one of the names.
func closureArgContains(c ssa.CallInstruction, names ...string) bool {
	for _, a := range c.Common().Args {
		if mc, ok := a.(*ssa.MakeClosure); ok {
			if f, ok := mc.Fn.(*ssa.Function); ok && containsCall(f, names...) {
				return true
			}
		}
	}
	return false
}

func ruleTxnDiscipline(e *Engine, r *Reporter) {
	r.Rule("txn-typestate", "in every function that begins a transaction: rollback is deferred before any statement, every statement and every statement-running helper uses the transaction (never the bare DB handle), statement errors are consumed, and a success return is reached only through a checked Commit (or before any statement ran)", 12)
	var tfs []*ssa.Function
	for _, fn := range e.Fns {
		if fn.Parent() != nil || fn.Origin() != nil || !sqlPkgs[pkgOf(fn)] {
			continue
		}
		if containsCall(fn, "BeginTx", "Begin") {
			tfs = append(tfs, fn)
		}
	}
	if len(tfs) == 0 {
		blind("txn-typestate: no function begins a transaction")
	}
	for _, tf := range tfs {
		name := fname(tf)
		// --- the begin call and its error check
		var begin ssa.CallInstruction
		eachInstr(tf, true, func(in ssa.Instruction) {
			if c, _, ok := methodCallNamed(in, "BeginTx", "Begin"); ok && begin == nil {
				begin = c
			}
		})
		// --- statements executed directly in tf
		stmts := e.sqlStatements(tf)
		type execPoint struct {
			in   ssa.Instruction
			what string
		}
		var execs []execPoint
		for _, st := range stmts {
			ok := false
			for _, rw := range st.RunWith {
				if strings.HasPrefix(rw, "Tx:") || strings.HasPrefix(rw, "PgxExec:") || strings.HasPrefix(rw, "PgxQuery:") {
					ok = true
				}
				if strings.HasPrefix(rw, "DB:") || strings.HasPrefix(rw, "Pool:") {
					ok = false
					break
				}
			}
			r.Check(ok, fmt.Sprintf("%s | %s %s runs on the transaction", name, st.Verb, table(st)), e.pos(st.Root.Pos()),
				"runner "+strings.Join(st.RunWith, ","), "statement inside a transactional function does not run on the transaction (runner: ["+strings.Join(st.RunWith, ",")+"]); it would not be rolled back with the rest")
		}
		// exec points: ExecContext/Query* on builders of tf, pgx Exec, and helper calls that run statements
		// (closures of tf included: the body of a range-over-func loop is one)
		eachInstr(tf, true, func(in ssa.Instruction) {
			c, ok := in.(ssa.CallInstruction)
			if !ok {
				return
			}
			if _, n, ok := methodCallNamed(in, "ExecContext", "QueryContext", "QueryRowContext", "Exec", "Query", "QueryRow"); ok {
				execs = append(execs, execPoint{in, n})
				return
			}
			g := staticCallee(c)
			if g == nil || g.Parent() != nil || !sqlPkgs[pkgOf(g)] || g == tf {
				return
			}
			hs := e.sqlStmtsDeep(g, 2)
			if len(hs) == 0 {
				return
			}
			execs = append(execs, execPoint{in, "helper " + shortFuncName(g)})
			// helper must receive the transaction and must not receive the DB handle
			gotTx, gotDB := false, false
			txParam := ""
			for i, a := range c.Common().Args {
				t := unwrap(a).Type()
				if isTxType(t) || (i < len(g.Params) && isTxType(g.Params[i].Type())) || structCarriesTx(t) {
					gotTx = true
					if i < len(g.Params) {
						txParam = paramName(g.Params[i])
					}
				}
				if isDBHandleType(t) {
					gotDB = true
				}
			}
			r.Check(gotTx && !gotDB, fmt.Sprintf("%s | helper %s receives the transaction", name, shortFuncName(g)), e.instrPos(in),
				"transaction passed as "+txParam, "a helper that executes SQL is called inside the transactional function without the transaction (or with the bare DB handle)")
			// inside the helper every statement runs on that parameter
			for _, st := range hs {
				ok := false
				for _, rw := range st.RunWith {
					if isTxRunner(rw) {
						ok = true
					}
				}
				for _, rw := range st.RunWith {
					if strings.HasPrefix(rw, "DB:") || strings.HasPrefix(rw, "Pool:") {
						ok = false
					}
				}
				r.Check(ok, fmt.Sprintf("%s | helper %s: %s %s runs on the transaction", name, fname(st.Top), st.Verb, table(st)), e.pos(st.Root.Pos()),
					"runner "+strings.Join(st.RunWith, ","), "statement in a transaction helper does not run on the transaction it was given (runner: ["+strings.Join(st.RunWith, ",")+"])")
			}
		})
		// --- rollback deferred before the first exec point
		isDeferRollback := func(in ssa.Instruction) bool {
			d, ok := in.(*ssa.Defer)
			if !ok {
				return false
			}
			if _, _, ok := methodCallNamed(d, "Rollback"); ok {
				return true
			}
			if mc, ok := d.Call.Value.(*ssa.MakeClosure); ok {
				if f, ok := mc.Fn.(*ssa.Function); ok {
					return containsCall(f, "Rollback")
				}
			}
			return false
		}
		okDefer := len(execs) > 0
		var bad ssa.Instruction
		for _, x := range execs {
			if ok := e.guardedAnyLevel(x.in, cutSpec{instr: isDeferRollback}); !ok { // statements inside loop-body closures (range-over-func) are lifted to where the closure is created
				okDefer = false
				bad = x.in
			}
		}
		pos := e.pos(tf.Pos())
		if bad != nil {
			pos = e.instrPos(bad)
		}
		r.Check(okDefer, name+" | rollback deferred before every statement", pos, fmt.Sprintf("%d statement/helper executions are all preceded by defer Rollback", len(execs)),
			"a statement can execute on a path where no rollback has been deferred (an early error return would leave the transaction open / partial work committed by a later commit)")
		// --- errors of executions are consumed
		for _, x := range execs {
			v, ok := x.in.(ssa.Value)
			if !ok {
				continue
			}
			if !strings.HasPrefix(x.what, "helper") && x.what != "ExecContext" && x.what != "Exec" {
				continue
			}
			used := errorResultUsed(v)
			r.Check(used, fmt.Sprintf("%s | error of %s consumed #%d", name, x.what, ordinalIn(tf, x.in)), e.instrPos(x.in),
				"error result is tested", "the error result of a statement execution inside the transaction is discarded; a failed statement would still be followed by Commit")
		}
		// --- commit gate for success returns
		commitOK := func(f Fact) bool {
			if f.Kind != "nil" || !f.Positive {
				return false
			}
			return derivesFrom(f.X, func(v ssa.Value) bool {
				c, ok := v.(*ssa.Call)
				if !ok {
					return false
				}
				if _, _, ok := methodCallNamed(c, "Commit"); ok {
					return true
				}
				return closureArgContains(c, "Commit")
			})
		}
		isExec := func(in ssa.Instruction) bool {
			for _, x := range execs {
				if x.in == in {
					return true
				}
			}
			return false
		}
		okCommit := true
		nSucc := 0
		var badRet ssa.Instruction
		for _, rs := range returnSites(tf) {
			if !rs.isSuccess() {
				continue
			}
			nSucc++
			// is there a path entry -> exec -> this return that avoids the commit-ok edge?
			for _, x := range execs {
				r1, _ := reachable(tf, nil, func(in ssa.Instruction) bool { return in == x.in }, cutSpec{edge: commitOK})
				r2, _ := reachable(tf, x.in, func(in ssa.Instruction) bool { return in == rs.At }, cutSpec{edge: commitOK})
				if r1 && r2 {
					okCommit = false
					badRet = rs.At
				}
			}
		}
		_ = isExec
		pos = e.pos(tf.Pos())
		if badRet != nil {
			pos = e.instrPos(badRet)
		}
		// a stage helper that receives the transaction and commits itself: tf forwards its verdict
		stageCommits := false
		if !containsCall(tf, "Commit") {
			for _, rs := range returnSites(tf) {
				ev := rs.errResult()
				if ev == nil {
					continue
				}
				var call *ssa.Call
				switch x := unwrap(ev).(type) {
				case *ssa.Call:
					call = x
				case *ssa.Extract:
					call, _ = x.Tuple.(*ssa.Call)
				}
				if call == nil {
					continue
				}
				g := staticCallee(call)
				if g == nil || len(g.Blocks) == 0 || !containsCall(g, "Commit") {
					continue
				}
				// inside the stage: every success return lies behind Commit()==nil
				all, any := true, false
				for _, grs := range returnSites(g) {
					if !grs.isSuccess() {
						continue
					}
					any = true
					if ok, _ := mustPass(g, grs.At, cutSpec{edge: commitOK}); !ok {
						all = false
					}
				}
				if any && all {
					stageCommits = true
					nSucc++
				}
			}
		}
		r.Check(okCommit && nSucc > 0 && (containsCall(tf, "Commit") || stageCommits), name+" | success only through a checked Commit", pos,
			fmt.Sprintf("%d success returns: each is before any statement or behind Commit()==nil", nSucc),
			"a success return is reachable after a statement executed without passing a Commit whose error is checked")
	}
}

func isTxRunner(rw string) bool {
	return strings.HasPrefix(rw, "Tx:") || strings.HasPrefix(rw, "PgxExec:") || strings.HasPrefix(rw, "PgxQuery:")
}

func ordinalIn(fn *ssa.Function, target ssa.Instruction) int {
	n := 0
	found := -1
	eachInstr(fn, true, func(in ssa.Instruction) {
		if _, ok := in.(ssa.CallInstruction); ok {
			if in == target {
				found = n
			}
			n++
		}
	})
	// ordinal among calls with the same callee
	tc, _ := target.(ssa.CallInstruction)
	if tc == nil {
		return found
	}
	k := 0
	res := 0
	eachInstr(fn, true, func(in ssa.Instruction) {
		c, ok := in.(ssa.CallInstruction)
		if !ok {
			return
		}
		if calleeObj(c) == calleeObj(tc) {
			if in == target {
				res = k
			}
			k++
		}
	})
	return res
}

// errorResultUsed: the (last, error-typed) result of the call is extracted and has a use other
// than being dropped.
func errorResultUsed(v ssa.Value) bool {
	refs := v.Referrers()
	if refs == nil {
		return false
	}
	if isErrorType(v.Type()) {
		return len(*refs) > 0
	}
	tup, ok := v.Type().(*types.Tuple)
	if !ok {
		return true
	}
	last := tup.Len() - 1
	if !isErrorType(tup.At(last).Type()) {
		return true
	}
	for _, r := range *refs {
		if ex, ok := r.(*ssa.Extract); ok && ex.Index == last && ex.Referrers() != nil && len(*ex.Referrers()) > 0 {
			return true
		}
	}
	return false
}

// ---- table-level obligations -------------------------------------------------------------------

func ruleAppendOnly(e *Engine, r *Reporter, tableName, ruleID, text string, floor int, insertOnlyInTxn bool) {
	r.Rule(ruleID, text, floor)
	for _, st := range e.allSQLStatements() {
		if table(st) != tableName {
			continue
		}
		key := fmt.Sprintf("%s %s %s", fname(st.Top), st.Verb, tableName)
		switch st.Verb {
		case "SELECT":
			r.OK(key, e.pos(st.Root.Pos()), "read only")
		case "INSERT":
			if insertOnlyInTxn {
				ok := false
				for _, rw := range st.RunWith {
					if isTxRunner(rw) {
						ok = true
					}
				}
				r.Check(ok, key, e.pos(st.Root.Pos()), "inserted on the write transaction", "rows are inserted outside the write transaction (runner: ["+strings.Join(st.RunWith, ",")+"])")
			} else {
				r.OK(key, e.pos(st.Root.Pos()), "insert")
			}
		default:
			r.Bad(key, e.pos(st.Root.Pos()), fmt.Sprintf("%s on %s: the table is append-only by the property (history / immutability would be rewritten)", st.Verb, tableName))
		}
	}
}

func ruleAssertionsKeyed(e *Engine, r *Reporter) {
	r.Rule("assertion-keyed", "every assertion statement is keyed by both store and authorization_model_id bound to the method's parameters; writes are upserts on that pair", 6)
	for _, st := range e.allSQLStatements() {
		if table(st) != "assertion" {
			continue
		}
		key := fmt.Sprintf("%s %s assertion", fname(st.Top), st.Verb)
		top := st.Top
		var strParams []string
		for _, p := range top.Params {
			if b, ok := p.Type().Underlying().(*types.Basic); ok && b.Kind() == types.String {
				strParams = append(strParams, paramName(p), "free:"+p.Name())
			}
		}
		isParam := func(v string, which int) bool {
			// which: 0 = first string param (store), 1 = second (model id)
			if len(strParams) < 4 {
				return false
			}
			return v == strParams[2*which] || v == strParams[2*which+1]
		}
		switch st.Verb {
		case "SELECT", "DELETE", "UPDATE":
			vs, vm := "", ""
			for _, w := range st.Wheres {
				if len(w.Guards) > 0 {
					continue
				}
				if v, ok := w.Vals["store"]; ok {
					vs = v
				}
				if v, ok := w.Vals["authorization_model_id"]; ok {
					vm = v
				}
			}
			r.Check(isParam(vs, 0) && isParam(vm, 1), key, e.pos(st.Root.Pos()), "WHERE store="+vs+" AND authorization_model_id="+vm,
				fmt.Sprintf("assertions are not selected by (store parameter, model-id parameter): store=%q authorization_model_id=%q", vs, vm))
		case "INSERT":
			is, im := -1, -1
			for i, c := range st.Columns {
				if c == "store" {
					is = i
				}
				if c == "authorization_model_id" {
					im = i
				}
			}
			ok := is >= 0 && im >= 0 && is < len(st.ValueArg) && im < len(st.ValueArg) && isParam(st.ValueArg[is], 0) && isParam(st.ValueArg[im], 1)
			ups := false
			for _, s := range st.Suffix {
				u := strings.ToUpper(s)
				if strings.Contains(u, "ON CONFLICT (STORE, AUTHORIZATION_MODEL_ID) DO UPDATE SET ASSERTIONS") || strings.Contains(u, "ON DUPLICATE KEY UPDATE ASSERTIONS") {
					ups = true
				}
			}
			r.Check(ok && ups, key, e.pos(st.Root.Pos()), "insert keyed by both parameters with an upsert on the pair",
				fmt.Sprintf("assertion insert is not (store param, model param)-keyed upsert: columns=%v values=%v suffix=%v", st.Columns, st.ValueArg, st.Suffix))
		}
	}
	// memory: the map key is built from both parameters
	for _, m := range []string{"WriteAssertions", "ReadAssertions"} {
		fn := e.Func("pkg/storage/memory", "MemoryBackend."+m)
		ok := false
		detail := ""
		eachInstr(fn, true, func(in ssa.Instruction) {
			var idx ssa.Value
			switch x := in.(type) {
			case *ssa.MapUpdate:
				idx = x.Key
			case *ssa.Lookup:
				if _, isMap := x.X.Type().Underlying().(*types.Map); isMap {
					idx = x.Index
				}
			}
			if idx == nil {
				return
			}
			d := describe_(idx)
			if strings.Contains(d, "arg1") && strings.Contains(d, "arg2") {
				ok = true
				detail = d
			} else if detail == "" {
				detail = d
			}
		})
		r.Check(ok, "memory."+m+" assertions map key", e.pos(fn.Pos()), "key "+detail, "the assertions map is not indexed by a key built from both the store and the model id: "+detail)
	}
}

// ruleCompositeKeyComplete: a function that handles the write path's composite tuple key
// (the *LockKey struct) and reads at least two of its components must read all of them:
// de-duplication string, lock ordering and the row-constructor IN list all have to agree on
// what identifies a tuple, otherwise two distinct tuples collapse into one key.
func ruleCompositeKeyComplete(e *Engine, r *Reporter) {
	r.Rule("composite-key-complete", "every function that reads two or more components of the write path's tuple lock key reads all of them (de-duplication, lock order and the IN list agree on tuple identity)", 4)
	for _, fn := range e.Fns {
		if !sqlPkgs[pkgOf(fn)] {
			continue
		}
		read := map[string]bool{}
		var keyT *types.Struct
		var keyName string
		for _, b := range fn.Blocks {
			for _, in := range b.Instrs {
				var x ssa.Value
				var idx int
				isRead := false
				switch f := in.(type) {
				case *ssa.FieldAddr:
					x, idx = f.X, f.Field
					for _, rr := range *f.Referrers() {
						if u, ok := rr.(*ssa.UnOp); ok && u.X == ssa.Value(f) {
							isRead = true
						}
					}
				case *ssa.Field:
					x, idx = f.X, f.Field
					isRead = true
				default:
					continue
				}
				t := x.Type()
				if p, ok := t.Underlying().(*types.Pointer); ok {
					t = p.Elem()
				}
				n, ok := t.(*types.Named)
				if !ok || !strings.HasSuffix(n.Obj().Name(), "LockKey") {
					continue
				}
				st, ok := n.Underlying().(*types.Struct)
				if !ok {
					continue
				}
				keyT, keyName = st, n.Obj().Name()
				if isRead {
					read[st.Field(idx).Name()] = true
				}
			}
		}
		if keyT == nil || len(read) < 2 {
			continue
		}
		var missing []string
		for i := 0; i < keyT.NumFields(); i++ {
			if !read[keyT.Field(i).Name()] {
				missing = append(missing, keyT.Field(i).Name())
			}
		}
		r.Check(len(missing) == 0, fmt.Sprintf("%s | %s components", fname(fn), keyName), e.pos(fn.Pos()), fmt.Sprintf("reads all %d components", keyT.NumFields()),
			fmt.Sprintf("handles the composite tuple key but ignores component(s) %v: tuples differing only there are treated as one (lost lock / lost existence check, so on_duplicate/on_missing is decided on the wrong row)", missing))
	}
}


// structCarriesTx: a struct (or pointer to one) with a field of a transaction type.
func structCarriesTx(t types.Type) bool {
	st, ok := derefType(t).Underlying().(*types.Struct)
	if !ok {
		return false
	}
	for i := 0; i < st.NumFields(); i++ {
		if isTxType(st.Field(i).Type()) {
			return true
		}
	}
	return false
}

package main

// C04: contextual tuples sit above every shared cache, are read by every engine, never persist.

import (
	"fmt"
	"go/types"
	"strings"

	"golang.org/x/tools/go/ssa"
)

const swPkg = "pkg/storage/storagewrappers"

func ruleContextualAboveCaches(e *Engine, r *Reporter) {
	r.Rule("contextual-above-caches", "the per-request reader handed to the engines is a CombinedTupleReader wrapped around the shared layers; no shared cache / shared iterator / bounded reader is ever built on top of a CombinedTupleReader (contextual tuples must never enter a shared cache)", 4)
	for _, name := range []string{"NewRequestStorageWrapperWithCache", "NewRequestStorageWrapper"} {
		fn := e.Func(swPkg, name)
		ok := false
		for _, rs := range returnSites(fn) {
			if len(rs.Results) != 1 {
				continue
			}
			d := describe_(rs.Results[0])
			if strings.Contains(d, "RelationshipTupleReader=storagewrappers.NewCombinedTupleReader(") {
				ok = true
			} else {
				ok = false
				break
			}
		}
		r.Check(ok, swPkg+"."+name+" returns a CombinedTupleReader", e.pos(fn.Pos()), "outermost layer merges the contextual tuples", "the request reader's outermost layer is not the CombinedTupleReader: contextual tuples are either not read or sit below a shared cache")
		// contextual tuples argument flows into the combined reader
		flows := false
		eachInstr(fn, false, func(in ssa.Instruction) {
			if c, ok := in.(ssa.CallInstruction); ok {
				if g := staticCallee(c); g != nil && g.Name() == "NewCombinedTupleReader" && describe_(c.Common().Args[1]) == "arg1" {
					flows = true
				}
			}
		})
		r.Check(flows, swPkg+"."+name+" passes the request's contextual tuples", e.pos(fn.Pos()), "NewCombinedTupleReader(inner, requestContextualTuples)", "the request's contextual tuples are not given to the combined reader")
	}
	for _, fn := range e.Fns {
		if isTestSupport(pkgOf(fn)) {
			continue
		}
		for _, b := range fn.Blocks {
			for _, in := range b.Instrs {
				c, ok := in.(ssa.CallInstruction)
				if !ok {
					continue
				}
				g := staticCallee(c)
				if g == nil {
					continue
				}
				switch g.Name() {
				case "NewCachedDatastore", "NewCachedTupleReader", "NewSharedIteratorDatastore", "NewBoundedTupleReader":
				default:
					continue
				}
				bad := false
				for _, a := range c.Common().Args {
					if !isReaderType(e, a.Type()) {
						continue
					}
					if derivesFrom(a, func(v ssa.Value) bool {
						cc, ok := v.(*ssa.Call)
						return ok && staticCallee(cc) != nil && staticCallee(cc).Name() == "NewCombinedTupleReader"
					}) || strings.Contains(describe_(a), "NewCombinedTupleReader(") {
						bad = true
					}
				}
				top := topLevel(fn)
				r.Check(!bad, fmt.Sprintf("%s | %s #%d inner reader", fname(top), g.Name(), ordinalIn(top, c)), e.instrPos(in), "inner reader is below the contextual layer", "a shared caching layer is built on top of a reader that already merges one request's contextual tuples: they would be cached and served to other requests")
			}
		}
	}
}

func isReaderType(e *Engine, t types.Type) bool {
	rtr := e.Named("pkg/storage", "RelationshipTupleReader").Underlying().(*types.Interface)
	return types.Implements(t, rtr) || types.Implements(types.NewPointer(t), rtr)
}

func ruleCombinedReaderOverrides(e *Engine, r *Reporter) {
	r.Rule("combined-reader-overrides", "CombinedTupleReader declares its own Read, ReadUserTuple, ReadUsersetTuples and ReadStartingWithUser (none falls through to the embedded reader), and each of them consults the contextual tuples", 4)
	n := e.Named(swPkg, "CombinedTupleReader")
	for _, m := range []string{"Read", "ReadUserTuple", "ReadUsersetTuples", "ReadStartingWithUser"} {
		obj, _, _ := types.LookupFieldOrMethod(types.NewPointer(n), true, n.Obj().Pkg(), m)
		f, _ := obj.(*types.Func)
		own := f != nil && f.Type().(*types.Signature).Recv() != nil && typeBaseName(f.Type().(*types.Signature).Recv().Type()) == "CombinedTupleReader"
		uses := false
		if own {
			if fn := e.FnOf(f); fn != nil {
				paths := e.accessPaths(fn, fn.Params[0], 3)
				for k := range paths {
					if strings.Contains(k, "contextualTuples") {
						uses = true
					}
				}
			}
		}
		r.Check(own && uses, swPkg+".CombinedTupleReader."+m, e.pos(n.Obj().Pos()), "own method reading the contextual tuples", fmt.Sprintf("CombinedTupleReader.%s does not merge the contextual tuples (own method: %v, reads them: %v): an engine calling it sees stored tuples only", m, own, uses))
	}
}

func ruleNoPersistence(e *Engine, r *Reporter) {
	r.Rule("contextual-never-persist", "RelationshipTupleWriter.Write is called only from WriteCommand.Execute (and delegating wrappers) with the request's writes and deletes", 1)
	im := e.IfaceMethod("pkg/storage", "RelationshipTupleWriter", "Write")
	cmd := e.Func("pkg/server/commands", "WriteCommand.Execute")
	for _, cs := range e.CallSitesOf(im, false) {
		top := topLevel(cs.Parent())
		if top == cmd {
			args := cs.Common().Args
			d := describe_(args[2]) + " " + describe_(args[3])
			ok := strings.Contains(d, "GetDeletes()") && strings.Contains(d, "GetWrites()")
			r.Check(ok, fname(top)+" | datastore.Write", e.instrPos(cs), "writes req.GetDeletes()/GetWrites()", "the write command persists something other than the request's writes and deletes: "+d)
			continue
		}
		deleg := top.Name() == "Write"
		r.Check(deleg, fname(top)+" | datastore.Write", e.instrPos(cs), "delegating wrapper", "tuples are written outside the Write command: contextual tuples (or anything else) could be persisted by a query API")
	}
}

func ruleMergeComparator(e *Engine, r *Reporter) {
	r.Rule("merge-comparator-reference", "the comparator that merges stored reverse-read results (ordered by object id) with the request's contextual tuples in bottomUp.buildIterator orders by GetObject of both sides and never reports equality (so a contextual tuple is never dropped as a duplicate of a stored one)", 1)
	fn := e.Func("internal/check", "bottomUp.buildIterator")
	n := 0
	for _, cl := range fn.AnonFuncs {
		if len(cl.Params) != 2 || cl.Signature.Results().Len() != 1 {
			continue
		}
		n++
		p0 := e.accessPaths(cl, cl.Params[0], 1)
		p1 := e.accessPaths(cl, cl.Params[1], 1)
		byObject := p0.has("Object") && p1.has("Object") && len(p0) == 1 && len(p1) == 1
		nonZero := true
		for _, rs := range returnSites(cl) {
			k, ok := constInt(rs.Results[0])
			if !ok || k == 0 {
				nonZero = false
			}
		}
		r.Check(byObject && nonZero, fname(fn)+" | merge comparator", e.pos(cl.Pos()), "orders by object, never 0", fmt.Sprintf("the stored/contextual merge comparator is not the reviewed one (orders by object only: %v [reads %v / %v], never reports equality: %v): the merged stream is no longer sorted by object or contextual tuples are dropped on equal keys", byObject, p0.sorted(), p1.sorted(), nonZero))
	}
	if n == 0 {
		blind("merge-comparator: no comparator closure found in bottomUp.buildIterator")
	}
}

// ruleV2ContextualPairing: every datastore read of the weighted-graph engine is paired with a
// lookup of the request's contextual tuples (same function, or the buildIterator it feeds).
func ruleV2ContextualPairing(e *Engine, r *Reporter) {
	r.Rule("v2-read-paired-with-contextual", "every datastore read in internal/check is accompanied by a GetContextualTuplesByObjectID/ByUserID lookup in the same function or in the buildIterator its iterator is handed to", 8)
	hasLookup := func(fn *ssa.Function) bool {
		found := false
		eachInstr(fn, true, func(in ssa.Instruction) {
			if isCallNamed(in, "GetContextualTuplesByObjectID", "GetContextualTuplesByUserID") {
				found = true
			}
		})
		return found
	}
	for _, s := range e.engineReadSites([]string{"internal/check"}) {
		ok := hasLookup(s.top)
		if !ok {
			v, _ := s.call.(ssa.Value)
			fc := e.forwardCallees(v)
			for name := range fc {
				if strings.HasSuffix(name, ".buildIterator") {
					// both buildIterator methods look the contextual tuples up
					for _, cand := range []string{"Resolver.buildIterator", "bottomUp.buildIterator"} {
						if f := e.FuncOpt("internal/check", cand); f != nil && hasLookup(f) {
							ok = true
						}
					}
				}
			}
		}
		r.Check(ok, fmt.Sprintf("%s | %s #%d", fname(s.top), s.meth, ordinalIn(s.top, s.call)), e.instrPos(s.call), "paired with a contextual-tuple lookup", "a stored-tuple read of the weighted-graph engine has no matching contextual-tuple lookup: contextual tuples are invisible on this path")
	}
}

// ruleExistentialSearchLoops: a bool function of the shape `for … { if match { return true } } return false` answers
// "does any element match".  Inside such a loop a return of anything but the constant true gives up on the remaining
// elements.  Scope: the contextual-tuple matchers of the combined reader (they decide which contextual tuples a read
// sees, mirroring the datastore's own filtering) and the breaking-change detector's restriction scans.
func ruleExistentialSearchLoops(e *Engine, r *Reporter, pkgs []string, floor int) {
	r.Rule("existential-search-not-aborted", "in a `return true on first match … return false after the loop` scan of the combined reader's tuple matchers, no path inside the loop returns anything but true: a mismatch on one candidate moves on to the next one", floor)
	for _, fn := range e.Fns {
		in := false
		for _, p := range pkgs {
			if short(pkgOf(fn)) == p || (p == "*" && !isTestSupport(pkgOf(fn))) {
				in = true
			}
		}
		if !in || fn.Parent() != nil {
			continue
		}
		res := fn.Signature.Results()
		if res.Len() != 1 || !types.Identical(res.At(0).Type(), types.Typ[types.Bool]) {
			continue
		}
		rets := returnSites(fn)
		// shape: a constant-false return outside every loop, and a constant-true return inside a loop
		var trueIn []*ssa.BasicBlock
		falseAfter := false
		for _, rs := range rets {
			if len(rs.Results) != 1 {
				continue
			}
			bv, isC := constBool(rs.Results[0])
			h := loopOfExit(rs.At.Block())
			if isC && bv && h != nil {
				trueIn = append(trueIn, h)
			}
			if isC && !bv && h == nil {
				falseAfter = true
			}
		}
		if len(trueIn) == 0 || !falseAfter {
			continue
		}
		bad := ""
		for _, rs := range rets {
			if len(rs.Results) != 1 {
				continue
			}
			h := loopOfExit(rs.At.Block())
			if h == nil {
				continue
			}
			isSearch := false
			for _, t := range trueIn {
				if t == h {
					isSearch = true
				}
			}
			if !isSearch {
				continue
			}
			if bv, isC := constBool(rs.Results[0]); isC && bv {
				continue
			}
			bad = e.instrPos(rs.At) + " returns " + describe_(rs.Results[0])
		}
		r.Check(bad == "", fname(fn)+" | scan continues after a mismatch", e.pos(fn.Pos()), "inside the loop only `return true`", "the any-match scan is aborted inside the loop ("+bad+"): a candidate after the first partial match is never considered")
	}
}

// loopOfExit: the innermost loop whose body contains block b, counting blocks that leave the loop by returning
// (which a natural-loop membership test excludes): b is dominated by a successor of the header that lies in the loop.
func loopOfExit(b *ssa.BasicBlock) *ssa.BasicBlock {
	fn := b.Parent()
	var best *ssa.BasicBlock
	for _, h := range fn.Blocks {
		isHeader := false
		for _, p := range h.Preds {
			if h.Dominates(p) {
				isHeader = true
			}
		}
		if !isHeader {
			continue
		}
		for _, s := range h.Succs {
			if s == h || !blockReaches(s, h) {
				continue // the exit edge
			}
			if s.Dominates(b) || s == b {
				if best == nil || best.Dominates(h) {
					best = h
				}
			}
		}
	}
	return best
}

// ruleContextualListNoPositionalAssumption: the per-request contextual-tuple lists handed out by the request's
// indexes are consulted as a whole (ranged over, binary-searched, passed on); no element is picked by a constant
// position, which would assume an ordering between contextual tuples that the index does not promise.
func ruleContextualListNoPositionalAssumption(e *Engine, r *Reporter) {
	r.Rule("contextual-list-no-positional-assumption", "no code of the weighted-graph engine indexes a list returned by Request.GetContextualTuplesByUserID / ByObjectID with a constant: every contextual tuple of the list is considered", 5)
	n := 0
	for _, fn := range e.Fns {
		if short(pkgOf(fn)) != "internal/check" {
			continue
		}
		ord := 0
		eachInstr(fn, false, func(in ssa.Instruction) {
			c, ok := in.(*ssa.Call)
			if !ok {
				return
			}
			o := calleeObj(c)
			if o == nil || !strings.HasPrefix(o.Name(), "GetContextualTuplesBy") {
				return
			}
			n++
			bad := ""
			seen := map[ssa.Value]bool{}
			var walk func(v ssa.Value)
			walk = func(v ssa.Value) {
				if v == nil || seen[v] || v.Referrers() == nil {
					return
				}
				seen[v] = true
				for _, ref := range *v.Referrers() {
					switch x := ref.(type) {
					case *ssa.Extract:
						if x.Index == 0 {
							walk(x)
						}
					case *ssa.Phi:
						walk(x)
					case *ssa.IndexAddr:
						if _, isC := constInt(x.Index); isC && x.X == v {
							bad = e.instrPos(x)
						}
					case *ssa.Index:
						if _, isC := constInt(x.Index); isC && x.X == v {
							bad = e.instrPos(x)
						}
					}
				}
			}
			walk(c)
			r.Check(bad == "", fmt.Sprintf("%s | %s #%d", fname(topLevel(fn)), o.Name(), ord), e.instrPos(in), "list used as a whole", "an element of the contextual list is taken by constant position ("+bad+"): contextual tuples at other positions are ignored although a stored tuple with the same content would be found")
			ord++
		})
	}
	if n == 0 {
		blind("contextual-list-no-positional-assumption: no contextual lookup found in internal/check")
	}
}

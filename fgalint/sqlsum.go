package main

// A7: reconstruct every squirrel statement of the SQL backends from SSA into a line-free summary.

import (
	"fmt"
	"go/token"
	"go/types"
	"sort"
	"strings"

	"golang.org/x/tools/go/ssa"
)

const sqPath = "github.com/Masterminds/squirrel"

type sqlPred struct {
	Text   string   // canonical text of the predicate
	Keys   []string // column keys constrained
	Guards []string // conditions under which the predicate is added
	Vals   map[string]string
	Op     string // Eq, GtOrEq, Gt, Lt, LtOrEq, Or, Expr, raw, other
	Call   *ssa.Call
}

type sqlStmt struct {
	Fn       *ssa.Function // function containing the root
	Top      *ssa.Function
	Verb     string
	Table    string
	Columns  []string
	Wheres   []sqlPred
	OrderBy  []string
	Limit    []string
	LimitGd  [][]string
	Suffix   []string
	Sets     []string
	Values   int
	ValueArg []string
	RunWith  []string // describe of RunWith args with their type
	Exec     []string // executing/consuming calls
	Root     *ssa.Call
	members  map[ssa.Value]bool
	Joins    []string
}

func (s *sqlStmt) whereKeys() []string {
	var out []string
	for _, w := range s.Wheres {
		out = append(out, w.Keys...)
	}
	return uniq(out)
}

func (s *sqlStmt) id() string {
	return fmt.Sprintf("%s %s", s.Verb, s.Table)
}

func isSqBuilderType(t types.Type) (string, bool) {
	if p, ok := t.(*types.Pointer); ok {
		t = p.Elem()
	}
	n, ok := t.(*types.Named)
	if !ok || n.Obj().Pkg() == nil || n.Obj().Pkg().Path() != sqPath {
		return "", false
	}
	switch n.Obj().Name() {
	case "SelectBuilder", "InsertBuilder", "UpdateBuilder", "DeleteBuilder":
		return n.Obj().Name(), true
	}
	return "", false
}

func isSqType(t types.Type, name string) bool {
	if p, ok := t.(*types.Pointer); ok {
		t = p.Elem()
	}
	n, ok := t.(*types.Named)
	return ok && n.Obj().Pkg() != nil && n.Obj().Pkg().Path() == sqPath && n.Obj().Name() == name
}

// sqlStatements extracts all statements built in fn and its closures.
func (e *Engine) sqlStatements(top *ssa.Function) []*sqlStmt {
	return e.sqlStatementsFrom(top, nil, 0)
}

// sqlStatementsFrom also treats the given values (builder-typed parameters) as statement roots,
// which is how helper functions that receive and return a builder are summarised.
func (e *Engine) sqlStatementsFrom(top *ssa.Function, virtual []ssa.Value, depth int) []*sqlStmt {
	// union-find over builder-typed values (including Allocs holding builders)
	parent := map[ssa.Value]ssa.Value{}
	var find func(ssa.Value) ssa.Value
	find = func(v ssa.Value) ssa.Value {
		p, ok := parent[v]
		if !ok {
			parent[v] = v
			return v
		}
		if p == v {
			return v
		}
		r := find(p)
		parent[v] = r
		return r
	}
	union := func(a, b ssa.Value) { parent[find(a)] = find(b) }
	isB := func(v ssa.Value) bool {
		if v == nil {
			return false
		}
		_, ok := isSqBuilderType(v.Type())
		return ok
	}
	fns := withClosures(top)
	// builder factories: module functions called from here that take no builder and return one (a helper that
	// starts a statement the caller completes).  Their bodies join the analysis and each call result continues
	// the statement begun inside.
	if depth < 2 {
		seenF := map[*ssa.Function]bool{top: true}
		for i := 0; i < len(fns); i++ {
			eachInstr(fns[i], false, func(in ssa.Instruction) {
				c, ok := in.(*ssa.Call)
				if !ok || !isB(c) {
					return
				}
				f := c.Common().StaticCallee()
				if f == nil || seenF[f] || len(f.Blocks) == 0 || !e.inModule(f) {
					return
				}
				for _, a := range c.Common().Args {
					if isB(a) {
						return
					}
				}
				seenF[f] = true
				fns = append(fns, withClosures(f)...)
			})
		}
		for _, fn := range fns {
			eachInstr(fn, false, func(in ssa.Instruction) {
				c, ok := in.(*ssa.Call)
				if !ok || !isB(c) {
					return
				}
				f := c.Common().StaticCallee()
				if f == nil || !seenF[f] || f == top {
					return
				}
				for _, rs := range returnSites(f) {
					if len(rs.Results) >= 1 && isB(rs.Results[0]) {
						union(c, rs.Results[0])
					}
				}
			})
		}
	}
	var roots []*ssa.Call
	for _, fn := range fns {
		// free variables holding builders: link to the binding in the parent
		if mc := e.parent[fn]; mc != nil {
			for i, fv := range fn.FreeVars {
				if i < len(mc.Bindings) && isB(fv) {
					union(fv, mc.Bindings[i])
				}
			}
		}
		for _, b := range fn.Blocks {
			for _, in := range b.Instrs {
				switch x := in.(type) {
				case *ssa.Phi:
					if isB(x) {
						for _, ed := range x.Edges {
							union(x, ed)
						}
					}
				case *ssa.Store:
					if isB(x.Val) {
						union(x.Addr, x.Val)
					}
				case *ssa.UnOp:
					if x.Op == token.MUL && isB(x) {
						union(x, x.X)
					}
				case *ssa.Call:
					cc := x.Common()
					f := cc.StaticCallee()
					if f == nil || f.Signature.Recv() == nil {
						continue
					}
					recvT := f.Signature.Recv().Type()
					if isSqType(recvT, "StatementBuilderType") && isB(x) {
						switch f.Name() {
						case "Select", "Insert", "Update", "Delete", "Replace":
							roots = append(roots, x)
							find(x)
						}
						continue
					}
					if _, ok := isSqBuilderType(recvT); ok && len(cc.Args) > 0 {
						if isB(x) {
							union(x, cc.Args[0])
						}
					}
				}
				// helper taking and returning a builder: the result continues the same statement
				if c, ok := in.(*ssa.Call); ok && isB(c) {
					if f := c.Common().StaticCallee(); f != nil && f.Signature.Recv() == nil && e.inModule(f) {
						for _, a := range c.Common().Args {
							if isB(a) {
								union(c, a)
							}
						}
					}
				}
			}
		}
	}
	// build statements per component
	comp := map[ssa.Value]*sqlStmt{}
	var out []*sqlStmt
	for _, vr := range virtual {
		c := find(vr)
		if comp[c] == nil {
			st := &sqlStmt{Fn: top, Top: top, Verb: "PARAM", members: map[ssa.Value]bool{}}
			comp[c] = st
			out = append(out, st)
		}
	}
	for _, r := range roots {
		c := find(r)
		st := comp[c]
		if st == nil {
			st = &sqlStmt{Fn: r.Parent(), Top: top, Root: r, members: map[ssa.Value]bool{}}
			comp[c] = st
			out = append(out, st)
		}
		f := r.Common().StaticCallee()
		verb := strings.ToUpper(f.Name())
		if st.Verb != "" && st.Verb != verb {
			st.Verb += "|" + verb
		} else {
			st.Verb = verb
		}
		args := r.Common().Args[1:]
		if verb == "SELECT" {
			st.Columns = append(st.Columns, describeStrings(args)...)
		} else if len(args) > 0 {
			st.Table = joinNonEmpty(st.Table, describe_(args[0]))
		}
	}
	for v := range parent {
		if st := comp[find(v)]; st != nil {
			st.members[v] = true
		}
	}
	// collect modifiers and consumers
	for _, fn := range fns {
		for _, b := range fn.Blocks {
			for _, in := range b.Instrs {
				call, ok := in.(ssa.CallInstruction)
				if !ok {
					continue
				}
				cc := call.Common()
				args := callArgs(call)
				f := cc.StaticCallee()
				// builder method?
				if f != nil && f.Signature.Recv() != nil && len(cc.Args) > 0 {
					if _, okb := isSqBuilderType(f.Signature.Recv().Type()); okb {
						st := comp[find(cc.Args[0])]
						if st == nil {
							continue
						}
						rest := cc.Args[1:]
						switch f.Name() {
						case "From", "Into", "Table":
							st.Table = joinNonEmpty(st.Table, describe_(rest[0]))
						case "Columns", "Column":
							st.Columns = append(st.Columns, describeStrings(rest)...)
						case "Where":
							c, _ := in.(*ssa.Call)
							p := describePred(rest)
							p.Guards = describeGuards(b)
							p.Call = c
							st.Wheres = append(st.Wheres, p)
						case "OrderBy":
							st.OrderBy = append(st.OrderBy, describeStrings(rest)...)
						case "Limit":
							st.Limit = append(st.Limit, describe_(rest[0]))
							st.LimitGd = append(st.LimitGd, describeGuards(b))
						case "Distinct":
							st.Suffix = append(st.Suffix, "DISTINCT")
						case "Suffix", "Prefix":
							st.Suffix = append(st.Suffix, describeStrings(rest[:1])...)
						case "Set":
							st.Sets = append(st.Sets, describe_(rest[0]))
						case "SetMap":
							st.Sets = append(st.Sets, describe_(rest[0]))
						case "Values":
							st.Values++
							st.ValueArg = append(st.ValueArg, describeStrings(rest)...)
						case "RunWith":
							st.RunWith = append(st.RunWith, typeBaseName(unwrap(rest[0]).Type())+":"+describe_(rest[0]))
						case "Join", "LeftJoin", "InnerJoin":
							st.Joins = append(st.Joins, describeStrings(rest[:1])...)
						case "ExecContext", "QueryContext", "QueryRowContext", "ToSql", "Exec", "Query", "QueryRow", "MustSql":
							st.Exec = append(st.Exec, f.Name())
							if f.Name() == "ToSql" {
								st.addPgxRunners(in.(*ssa.Call))
							}
						case "PlaceholderFormat", "GroupBy", "Options", "Offset":
						default:
							st.Exec = append(st.Exec, "method:"+f.Name())
						}
						continue
					}
				}
				// builder passed to another function (NewSQLTupleIterator, NewSBIteratorQuery, helper)
				for _, a := range args {
					if !isB(unwrap(a)) {
						continue
					}
					st := comp[find(unwrap(a))]
					if st == nil {
						continue
					}
					name := "?"
					if f != nil {
						name = shortFuncName(f)
					} else if cc.IsInvoke() {
						name = cc.Method.Name()
					}
					st.Exec = append(st.Exec, "passed:"+name)
					// a connection/transaction handle handed over together with the builder is its runner
					for _, other := range args {
						if other == a {
							continue
						}
						ot := unwrap(other).Type()
						switch typeBaseName(ot) {
						case "Tx", "PgxExec", "PgxQuery", "DB", "Pool":
							st.RunWith = append(st.RunWith, typeBaseName(ot)+":"+describe_(other))
						}
					}
					// summarise what the helper adds to the statement
					if f != nil && f.Blocks != nil && e.inModule(f) && depth < 2 {
						for pi, p := range f.Params {
							if pi < len(args) && unwrap(args[pi]) == unwrap(a) && isB(p) {
								for _, hs := range e.sqlStatementsFrom(f, []ssa.Value{p}, depth+1) {
									if hs.Verb != "PARAM" {
										continue
									}
									for _, w := range hs.Wheres {
										w.Guards = append(describeGuards(b), prefixAll("in "+name+": ", w.Guards)...)
										w.Text = substArgs(w.Text, call)
										for k, v := range w.Vals {
											w.Vals[k] = substArgs(v, call)
										}
										st.Wheres = append(st.Wheres, w)
									}
									st.OrderBy = append(st.OrderBy, hs.OrderBy...)
									st.Limit = append(st.Limit, hs.Limit...)
									st.LimitGd = append(st.LimitGd, hs.LimitGd...)
									for _, x := range hs.Exec {
										if x != "returned" {
											st.Exec = append(st.Exec, x)
										}
									}
									st.RunWith = append(st.RunWith, hs.RunWith...)
								}
							}
						}
					}
				}
			}
			// builder returned
			if len(b.Instrs) > 0 {
				if ret, ok := b.Instrs[len(b.Instrs)-1].(*ssa.Return); ok {
					for _, rv := range ret.Results {
						if isB(rv) {
							if st := comp[find(rv)]; st != nil {
								st.Exec = append(st.Exec, "returned")
							}
						}
					}
				}
			}
		}
	}
	for _, st := range out {
		st.Exec = uniq(st.Exec)
		st.RunWith = uniq(st.RunWith)
		st.Suffix = uniq(st.Suffix)
	}
	sort.SliceStable(out, func(i, j int) bool { return out[i].Root.Pos() < out[j].Root.Pos() })
	return out
}

func joinNonEmpty(a, b string) string {
	if a == "" || a == b {
		return b
	}
	return a + "|" + b
}

// describeStrings renders call arguments, expanding a variadic slice literal.
func describeStrings(args []ssa.Value) []string {
	var out []string
	for _, a := range args {
		if elems, ok := sliceLitElems(a); ok {
			for _, el := range elems {
				out = append(out, stripQuotes(describe_(el)))
			}
			continue
		}
		if c, ok := a.(*ssa.Const); ok && c.Value == nil {
			continue // nil variadic
		}
		out = append(out, stripQuotes(describe_(a)))
	}
	return out
}

func stripQuotes(s string) string {
	if len(s) >= 2 && s[0] == '"' && s[len(s)-1] == '"' {
		return s[1 : len(s)-1]
	}
	return s
}

// describePred renders the arguments of Where(pred, args...).
func describePred(args []ssa.Value) sqlPred {
	p := sqlPred{Vals: map[string]string{}}
	if len(args) == 0 {
		return p
	}
	d := predOf(args[0], 0)
	p.Text, p.Keys, p.Op, p.Vals = d.text, uniq(d.keys), d.op, d.vals
	return p
}

type predDesc struct {
	text string
	keys []string
	op   string
	vals map[string]string
}

func sqMapKind(t types.Type) (string, bool) {
	n, ok := t.(*types.Named)
	if !ok || n.Obj().Pkg() == nil || n.Obj().Pkg().Path() != sqPath {
		return "", false
	}
	switch n.Obj().Name() {
	case "Eq", "NotEq", "Gt", "GtOrEq", "Lt", "LtOrEq", "Like", "NotLike", "ILike":
		return n.Obj().Name(), true
	}
	return "", false
}

func predOf(v ssa.Value, depth int) predDesc {
	v = unwrap(v)
	out := predDesc{vals: map[string]string{}}
	if depth > 6 {
		out.text = "…"
		return out
	}
	if kind, ok := sqMapKind(v.Type()); ok {
		out.op = kind
		// all MakeMap origins + MapUpdates on this value
		var parts []string
		for _, mm := range mapOrigins(v) {
			for _, r := range *mm.Referrers() {
				mu, ok := r.(*ssa.MapUpdate)
				if !ok || mu.Map != mm {
					continue
				}
				k := stripQuotes(describe_(mu.Key))
				val := describe_(mu.Value)
				g := describeGuards(mu.Block())
				item := k + "=" + val
				// guards of the update relative to the map creation are kept only when they differ
				if mmi, ok := mm.(ssa.Instruction); ok && mu.Block() != mmi.Block() {
					extra := diffStrings(g, describeGuards(mmi.Block()))
					if len(extra) > 0 {
						item += " if " + strings.Join(extra, "&&")
					}
				}
				parts = append(parts, item)
				out.keys = append(out.keys, k)
				out.vals[k] = val
			}
		}
		sort.Strings(parts)
		out.text = kind + "{" + strings.Join(parts, ", ") + "}"
		return out
	}
	if n, ok := v.Type().(*types.Named); ok && n.Obj().Pkg() != nil && n.Obj().Pkg().Path() == sqPath && (n.Obj().Name() == "Or" || n.Obj().Name() == "And") {
		out.op = n.Obj().Name()
		var parts []string
		for _, el := range sliceOrigins(v, map[ssa.Value]bool{}) {
			d := predOf(el, depth+1)
			// guards under which the element was added (relative to the consumer, noise removed)
			if mi, ok := unwrap(el).(ssa.Instruction); ok && mi.Block() != nil {
				if g := describeGuards(mi.Block()); len(g) > 0 {
					d.text += " if " + strings.Join(g, "&&")
				}
			}
			parts = append(parts, d.text)
			out.keys = append(out.keys, d.keys...)
			for k, vv := range d.vals {
				out.vals[k] = vv
			}
		}
		if len(parts) == 0 {
			out.text = n.Obj().Name() + "[" + describe_(v) + "]"
		} else {
			parts = uniq(parts)
			out.text = n.Obj().Name() + "[" + strings.Join(parts, "; ") + "]"
		}
		return out
	}
	if c, ok := v.(*ssa.Call); ok {
		if f := c.Common().StaticCallee(); f != nil && f.Pkg != nil && f.Pkg.Pkg.Path() == sqPath && f.Name() == "Expr" {
			out.op = "Expr"
			out.text = "Expr(" + describe_(c.Common().Args[0]) + ")"
			out.keys = columnsInExpr(describe_(c.Common().Args[0]))
			return out
		}
	}
	if s, ok := constString(v); ok {
		out.op = "raw"
		out.text = "raw(" + s + ")"
		out.keys = columnsInExpr(s)
		return out
	}
	// a predicate built by a helper of the module: the alternatives it can return, with the helper's
	// parameters replaced by the caller's arguments in the value descriptions
	if c, ok := v.(*ssa.Call); ok {
		if f := c.Common().StaticCallee(); f != nil && len(f.Blocks) > 0 && f.Pkg != nil && strings.HasPrefix(f.Pkg.Pkg.Path(), modPath) && f.Signature.Results().Len() == 1 {
			var alts []string
			for _, rs := range returnSites(f) {
				if len(rs.Results) != 1 {
					continue
				}
				d := predOf(rs.Results[0], depth+1)
				if d.op == "other" {
					continue
				}
				for i, a := range c.Common().Args {
					an := fmt.Sprintf("arg%d", i)
					if f.Signature.Recv() != nil {
						if i == 0 {
							an = "recv"
						} else {
							an = fmt.Sprintf("arg%d", i-1)
						}
					}
					ad := describe_(a)
					d.text = replaceIdent(d.text, an, ad)
					for k, vv := range d.vals {
						d.vals[k] = replaceIdent(vv, an, ad)
					}
				}
				alts = append(alts, d.text)
				out.keys = append(out.keys, d.keys...)
				for k, vv := range d.vals {
					out.vals[k] = vv
				}
				if out.op == "" {
					out.op = d.op
				} else if out.op != d.op {
					out.op = "alt"
				}
			}
			if len(alts) > 0 {
				alts = uniq(alts)
				out.text = strings.Join(alts, " | ")
				if len(alts) > 1 {
					out.text = "alt(" + out.text + ")"
				}
				return out
			}
			out = predDesc{vals: map[string]string{}}
		}
	}
	out.op = "other"
	out.text = describe_(v)
	return out
}

// columnsInExpr picks identifiers that look like column names out of a raw SQL fragment.
func columnsInExpr(s string) []string {
	var out []string
	cur := ""
	flush := func() {
		if cur != "" {
			lc := strings.ToLower(cur)
			switch lc {
			case "in", "and", "or", "is", "not", "null", "coalesce", "now", "interval", "day", "second", "seconds":
			default:
				if cur == lc && (cur[0] == '_' || cur[0] >= 'a' && cur[0] <= 'z') {
					out = append(out, cur)
				}
			}
		}
		cur = ""
	}
	inStr := false
	for _, r := range s {
		if r == '"' || r == '\'' {
			inStr = !inStr
			flush()
			continue
		}
		if inStr {
			continue
		}
		if r == '_' || r >= 'a' && r <= 'z' || r >= 'A' && r <= 'Z' || r >= '0' && r <= '9' && cur != "" {
			cur += string(r)
		} else {
			flush()
		}
	}
	flush()
	return uniq(out)
}

func diffStrings(a, b []string) []string {
	m := map[string]bool{}
	for _, x := range b {
		m[x] = true
	}
	var out []string
	for _, x := range a {
		if !m[x] {
			out = append(out, x)
		}
	}
	return out
}

// mapOrigins follows phis/loads to the MakeMap instructions a map value may come from.
func mapOrigins(v ssa.Value) []ssa.Value {
	seen := map[ssa.Value]bool{}
	var out []ssa.Value
	var rec func(ssa.Value)
	rec = func(v ssa.Value) {
		v = unwrap(v)
		if v == nil || seen[v] {
			return
		}
		seen[v] = true
		switch x := v.(type) {
		case *ssa.MakeMap:
			out = append(out, x)
		case *ssa.Phi:
			for _, e := range x.Edges {
				rec(e)
			}
		case *ssa.UnOp:
			if x.Op == token.MUL {
				for _, st := range storesTo(x.X) {
					rec(st.Val)
				}
			}
		}
	}
	rec(v)
	return out
}

// sliceOrigins returns the element values that may have been appended to / stored in slice v.
func sliceOrigins(v ssa.Value, seen map[ssa.Value]bool) []ssa.Value {
	v = unwrap(v)
	if v == nil || seen[v] {
		return nil
	}
	seen[v] = true
	var out []ssa.Value
	switch x := v.(type) {
	case *ssa.Phi:
		for _, e := range x.Edges {
			out = append(out, sliceOrigins(e, seen)...)
		}
	case *ssa.Call:
		if b, ok := x.Common().Value.(*ssa.Builtin); ok && b.Name() == "append" {
			out = append(out, sliceOrigins(x.Common().Args[0], seen)...)
			if len(x.Common().Args) > 1 {
				if elems, ok := sliceLitElems(x.Common().Args[1]); ok {
					out = append(out, elems...)
				} else {
					out = append(out, sliceOrigins(x.Common().Args[1], seen)...)
				}
			}
		}
	case *ssa.Slice:
		if elems, ok := sliceLitElems(x); ok {
			out = append(out, elems...)
		} else {
			out = append(out, sliceOrigins(x.X, seen)...)
		}
	case *ssa.UnOp:
		if x.Op == token.MUL {
			for _, st := range storesTo(x.X) {
				out = append(out, sliceOrigins(st.Val, seen)...)
			}
		}
	}
	return out
}

// render gives the canonical multi-line text of a statement (used for inventory and sibling diff).
func (s *sqlStmt) render() string {
	var b strings.Builder
	fmt.Fprintf(&b, "%s %s", s.Verb, s.Table)
	if len(s.Columns) > 0 {
		fmt.Fprintf(&b, " cols[%s]", strings.Join(s.Columns, ","))
	}
	if len(s.Sets) > 0 {
		fmt.Fprintf(&b, " set[%s]", strings.Join(s.Sets, ","))
	}
	if s.Values > 0 {
		fmt.Fprintf(&b, " values[%s]", strings.Join(s.ValueArg, ","))
	}
	var ws []string
	for _, w := range s.Wheres {
		t := w.Text
		if len(w.Guards) > 0 {
			t += " WHEN " + strings.Join(w.Guards, "&&")
		}
		ws = append(ws, t)
	}
	sort.Strings(ws)
	for _, w := range ws {
		fmt.Fprintf(&b, "\n      where %s", w)
	}
	if len(s.OrderBy) > 0 {
		fmt.Fprintf(&b, "\n      order[%s]", strings.Join(s.OrderBy, ","))
	}
	for i, l := range s.Limit {
		fmt.Fprintf(&b, "\n      limit %s WHEN %s", l, strings.Join(s.LimitGd[i], "&&"))
	}
	if len(s.Suffix) > 0 {
		fmt.Fprintf(&b, "\n      suffix[%s]", strings.Join(s.Suffix, " ; "))
	}
	if len(s.Joins) > 0 {
		fmt.Fprintf(&b, "\n      join[%s]", strings.Join(s.Joins, " ; "))
	}
	fmt.Fprintf(&b, "\n      runwith[%s] exec[%s]", strings.Join(s.RunWith, ","), strings.Join(s.Exec, ","))
	return b.String()
}

func prefixAll(p string, xs []string) []string {
	var out []string
	for _, x := range xs {
		out = append(out, p+x)
	}
	return out
}

// substArgs rewrites argN tokens of a callee-relative description with the caller's actuals.
func substArgs(text string, call ssa.CallInstruction) string {
	args := call.Common().Args
	for i := len(args) - 1; i >= 0; i-- {
		text = strings.ReplaceAll(text, fmt.Sprintf("arg%d", i), "<"+describe_(args[i])+">")
	}
	return text
}

// addPgxRunners records which handle executes the SQL text produced by ToSql.
func (s *sqlStmt) addPgxRunners(toSql *ssa.Call) {
	for _, r := range *toSql.Referrers() {
		ex, ok := r.(*ssa.Extract)
		if !ok || ex.Index != 0 {
			continue
		}
		for _, u := range *ex.Referrers() {
			c, ok := u.(ssa.CallInstruction)
			if !ok {
				continue
			}
			cc := c.Common()
			var recv ssa.Value
			name := ""
			if cc.IsInvoke() {
				recv, name = cc.Value, cc.Method.Name()
			} else if f := cc.StaticCallee(); f != nil && f.Signature.Recv() != nil && len(cc.Args) > 0 {
				recv, name = cc.Args[0], f.Name()
			} else {
				continue
			}
			switch name {
			case "Exec", "Query", "QueryRow":
				s.Exec = append(s.Exec, "pgx."+name)
				s.RunWith = append(s.RunWith, typeBaseName(unwrap(recv).Type())+":"+describe_(recv))
			}
		}
	}
}

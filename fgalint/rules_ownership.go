package main

// C20: iterator ownership (acquire -> Stop on all exits, or ownership transfer).

import (
	"fmt"
	"go/token"
	"go/types"
	"strings"

	"golang.org/x/tools/go/ssa"
)

// isIteratorType: has Stop() and (Next or Head) methods.
func isIteratorType(t types.Type) bool {
	if t == nil {
		return false
	}
	ms := types.NewMethodSet(t)
	if ms.Len() == 0 {
		if _, ok := t.Underlying().(*types.Interface); !ok {
			ms = types.NewMethodSet(types.NewPointer(t))
		}
	}
	hasStop, hasNext := false, false
	for i := 0; i < ms.Len(); i++ {
		switch ms.At(i).Obj().Name() {
		case "Stop":
			if sig, ok := ms.At(i).Type().(*types.Signature); ok && sig.Params().Len() == 0 {
				hasStop = true
			}
		case "Next", "Head":
			hasNext = true
		}
	}
	return hasStop && hasNext
}

type iterSource struct {
	v    ssa.Value       // the iterator value
	at   ssa.Instruction // definition point
	call *ssa.Call       // producing call when the source is a call result
	kind string
}

// iterSources: iterator values a function acquires: results of calls, and Iter fields loaded
// from a message received in this function.
func iterSources(fn *ssa.Function) []iterSource {
	var out []iterSource
	for _, b := range fn.Blocks {
		for _, in := range b.Instrs {
			switch x := in.(type) {
			case *ssa.Call:
				t := x.Type()
				if tup, ok := t.(*types.Tuple); ok {
					for i := 0; i < tup.Len(); i++ {
						if isIteratorType(tup.At(i).Type()) {
							for _, ref := range *x.Referrers() {
								if ex, ok := ref.(*ssa.Extract); ok && ex.Index == i {
									out = append(out, iterSource{ex, ex, x, "call"})
								}
							}
						}
					}
				} else if isIteratorType(t) {
					out = append(out, iterSource{x, x, x, "call"})
				}
			}
		}
	}
	return out
}

// usesOf: how the function disposes of iterator v. releases = instructions that stop it;
// transfers = instructions that hand ownership elsewhere.
func iterDispositions(v ssa.Value) (releases, transfers []ssa.Instruction) {
	seen := map[ssa.Value]bool{}
	var walk func(ssa.Value)
	walk = func(v ssa.Value) {
		if v == nil || seen[v] || v.Referrers() == nil {
			return
		}
		seen[v] = true
		for _, ref := range *v.Referrers() {
			switch x := ref.(type) {
			case *ssa.Phi, *ssa.MakeInterface, *ssa.ChangeInterface, *ssa.ChangeType, *ssa.TypeAssert:
				walk(x.(ssa.Value))
			case *ssa.Defer:
				cc := x.Common()
				if isMethodOn(cc, v, "Stop") {
					releases = append(releases, x)
				} else {
					transfers = append(transfers, x)
				}
			case *ssa.Go:
				transfers = append(transfers, x)
			case ssa.CallInstruction:
				cc := x.Common()
				if isMethodOn(cc, v, "Stop") {
					releases = append(releases, x)
				} else if isMethodOn(cc, v, "Next") || isMethodOn(cc, v, "Head") || isMethodOn(cc, v, "IsOrdered") || isMethodOn(cc, v, "ToArray") {
					// using it
				} else {
					transfers = append(transfers, x)
				}
			case *ssa.Return:
				transfers = append(transfers, x)
			case *ssa.Store:
				if x.Val == v {
					if _, isAlloc := x.Addr.(*ssa.Alloc); isAlloc {
						// local variable (e.g. captured by a deferred closure): follow loads and closures
						walk(x.Addr)
						for _, r2 := range *x.Addr.Referrers() {
							if u, ok := r2.(*ssa.UnOp); ok && u.Op == token.MUL {
								walk(u)
							}
						}
					} else {
						transfers = append(transfers, x)
					}
				}
			case *ssa.Send:
				transfers = append(transfers, x)
			case *ssa.MakeClosure:
				transfers = append(transfers, x)
			case *ssa.UnOp:
				walk(x)
			}
		}
	}
	walk(v)
	return
}

func isMethodOn(cc *ssa.CallCommon, v ssa.Value, name string) bool {
	if cc.IsInvoke() {
		return cc.Method.Name() == name && unwrapAll(cc.Value) == unwrapAll(v)
	}
	if f := cc.StaticCallee(); f != nil && f.Signature.Recv() != nil && f.Name() == name && len(cc.Args) > 0 {
		return unwrapAll(cc.Args[0]) == unwrapAll(v)
	}
	return false
}

func unwrapAll(v ssa.Value) ssa.Value {
	for {
		switch x := v.(type) {
		case *ssa.MakeInterface:
			v = x.X
		case *ssa.ChangeInterface:
			v = x.X
		case *ssa.ChangeType:
			v = x.X
		case *ssa.Phi:
			if len(x.Edges) == 1 {
				v = x.Edges[0]
				continue
			}
			return v
		default:
			return v
		}
	}
}

func ruleIteratorOwnership(e *Engine, r *Reporter, pkgs []string) {
	r.Rule("iterator-released-or-transferred", "every iterator a request-path function obtains from a call is, on every path to the function's exit, stopped (explicitly or by a registered defer) or handed over (returned, wrapped, stored, sent, captured); the error branch of the producing call is exempt", 25)
	for _, fn := range e.Fns {
		p := short(pkgOf(fn))
		in := false
		for _, x := range pkgs {
			if p == x || strings.HasPrefix(p, x+"/") {
				in = true
			}
		}
		if !in || isTestSupport(pkgOf(fn)) {
			continue
		}
		for _, src := range iterSources(fn) {
			if why, ok := resourceFreeIterators[calleeLabel(src.call)]; ok {
				_ = why
				continue
			}
			// a wrapper around an iterator that this function itself stops needs no release of its own
			wrapsReleased := false
			if src.call != nil {
				for _, a := range src.call.Call.Args {
					if isIteratorType(a.Type()) {
						if rel0, _ := iterDispositions(a); len(rel0) > 0 {
							wrapsReleased = true
						}
					}
				}
			}
			rel, tr := iterDispositions(src.v)
			disp := map[ssa.Instruction]bool{}
			for _, x := range rel {
				disp[x] = true
			}
			for _, x := range tr {
				disp[x] = true
			}
			top := topLevel(fn)
			key := fmt.Sprintf("%s | iterator from %s #%d", fname(top), calleeLabel(src.call), ordinalIn(top, src.call))
			if wrapsReleased {
				r.OK(key, e.instrPos(src.at), "wraps an iterator this function stops itself")
				continue
			}
			if len(disp) == 0 {
				r.Bad(key, e.instrPos(src.at), "the iterator is neither stopped nor handed over anywhere in the function")
				continue
			}
			cut := cutSpec{
				instr: func(in ssa.Instruction) bool { return disp[in] },
				edge: func(f Fact) bool {
					// error branch of the producing call: no iterator to release
					if f.Kind == "nil" && !f.Positive && isErrorType(f.X.Type()) && src.call != nil {
						return derivesFrom(f.X, func(v ssa.Value) bool { return v == ssa.Value(src.call) })
					}
					// iterator known to be nil
					if f.Kind == "nil" && f.Positive && unwrapAll(f.X) == unwrapAll(src.v) {
						return true
					}
					return false
				},
			}
			leak := false
			var via ssa.Instruction
			for _, rs := range returnSites(fn) {
				returned := false
				for _, rv := range rs.Results {
					if derivesFrom(rv, func(v ssa.Value) bool { return unwrapAll(v) == unwrapAll(src.v) }) {
						returned = true
					}
				}
				if returned {
					continue // this exit hands the iterator to the caller
				}
				if reach, _ := reachable(fn, src.at, func(in ssa.Instruction) bool { return in == rs.At }, cut); reach {
					leak = true
					via = rs.At
				}
			}
			// loop re-acquisition without release
			if reach, _ := reachable(fn, src.at, func(in ssa.Instruction) bool { return in == src.at }, cut); reach {
				leak = true
				via = src.at
			}
			pos := e.instrPos(src.at)
			if leak {
				r.Bad(key, pos, "a path from acquiring the iterator to "+e.instrPos(via)+" neither stops it nor hands it over: the underlying rows/connection stay open after the request returns")
			} else {
				r.OK(key, pos, fmt.Sprintf("%d release / %d transfer sites cover every exit", len(rel), len(tr)))
			}
		}
	}
}

func calleeLabel(c *ssa.Call) string {
	if c == nil {
		return "?"
	}
	if o := calleeObj(c); o != nil {
		return o.Name()
	}
	return "dynamic"
}

// resourceFreeIterators: constructors of iterators over in-memory data (nothing to release).
var resourceFreeIterators = map[string]string{
	"NewStaticTupleKeyIterator": "iterates a slice already in memory",
	"NewStaticTupleIterator":    "iterates a slice already in memory",
	"NewStaticIterator":         "iterates a slice already in memory",
	"Error":                     "an iterator that only yields an error",
}

// ruleMessageIterators: an iterator that arrives inside a message received from a channel and is
// consumed in the function is stopped (or the message handed on) before the function takes the
// next message or returns.
func ruleMessageIterators(e *Engine, r *Reporter, pkgs []string) {
	r.Rule("message-iterator-released", "an iterator received inside a channel message and consumed (Next/Head) in a function of the default engine is stopped, or handed on, on every path from its use to the next receive or to the function's exit", 1)
	for _, fn := range e.Fns {
		p := short(pkgOf(fn))
		in := false
		for _, x := range pkgs {
			if p == x || strings.HasPrefix(p, x+"/") {
				in = true
			}
		}
		if !in || isTestSupport(pkgOf(fn)) {
			continue
		}
		// messages: values of pointer-to-struct type with an iterator-typed field, obtained from a receive
		msgs := map[ssa.Value]ssa.Instruction{}
		for _, b := range fn.Blocks {
			for _, ins := range b.Instrs {
				switch x := ins.(type) {
				case *ssa.Extract:
					if _, ok := x.Tuple.(*ssa.Select); ok && hasIteratorField(x.Type()) {
						msgs[x] = x.Tuple.(*ssa.Select)
					}
					if u, ok := x.Tuple.(*ssa.UnOp); ok && u.Op == token.ARROW && hasIteratorField(x.Type()) {
						msgs[x] = u
					}
				case *ssa.UnOp:
					if x.Op == token.ARROW && hasIteratorField(x.Type()) {
						msgs[x] = x
					}
				}
			}
		}
		for m, recv := range msgs {
			var loads []ssa.Value
			var uses, disp []ssa.Instruction
			for _, ref := range *m.Referrers() {
				switch x := ref.(type) {
				case *ssa.FieldAddr:
					if !isIteratorType(derefType(x.Type())) {
						continue
					}
					for _, r2 := range *x.Referrers() {
						if u, ok := r2.(*ssa.UnOp); ok && u.Op == token.MUL {
							loads = append(loads, u)
						}
					}
				case ssa.CallInstruction:
					disp = append(disp, x) // message handed to another function
				case *ssa.Send, *ssa.Store, *ssa.MakeClosure, *ssa.Return:
					disp = append(disp, ref)
				}
			}
			for _, l := range loads {
				for _, ref := range *l.Referrers() {
					c, ok := ref.(ssa.CallInstruction)
					if !ok {
						if _, isPhi := ref.(*ssa.Phi); !isPhi {
							if _, isMI := ref.(*ssa.MakeInterface); !isMI {
								continue
							}
						}
						disp = append(disp, ref)
						continue
					}
					cc := c.Common()
					switch {
					case isMethodOn(cc, l, "Stop"):
						disp = append(disp, c)
					case isMethodOn(cc, l, "Next"), isMethodOn(cc, l, "Head"):
						uses = append(uses, c)
					default:
						disp = append(disp, c)
					}
				}
			}
			if len(uses) == 0 {
				continue
			}
			dset := map[ssa.Instruction]bool{}
			for _, d := range disp {
				dset[d] = true
			}
			cut := cutSpec{instr: func(in ssa.Instruction) bool { return dset[in] }}
			leak := false
			var via ssa.Instruction
			for _, u := range uses {
				for _, rs := range returnSites(fn) {
					if reach, _ := reachable(fn, u, func(in ssa.Instruction) bool { return in == rs.At }, cut); reach {
						leak, via = true, rs.At
					}
				}
				if reach, _ := reachable(fn, u, func(in ssa.Instruction) bool { return in == recv }, cut); reach {
					leak, via = true, recv
				}
			}
			top := topLevel(fn)
			key := fmt.Sprintf("%s | iterator of message received at #%d", fname(top), ordinalInstr(top, recv))
			if leak {
				r.Bad(key, e.instrPos(uses[0]), "after consuming from the message's iterator the function can reach "+e.instrPos(via)+" without stopping it or handing the message on: the underlying datastore iterator (rows, pooled connection) stays open after the request returns")
			} else {
				r.OK(key, e.instrPos(uses[0]), fmt.Sprintf("%d stop/hand-over sites cover every path", len(disp)))
			}
		}
	}
}

func hasIteratorField(t types.Type) bool {
	st, ok := derefType(t).Underlying().(*types.Struct)
	if !ok {
		return false
	}
	for i := 0; i < st.NumFields(); i++ {
		if isIteratorType(st.Field(i).Type()) {
			return true
		}
	}
	return false
}

// ordinalInstr: index of the receive among receives of the function (stable, line-free).
func ordinalInstr(top *ssa.Function, target ssa.Instruction) int {
	n, res := 0, -1
	eachInstr(top, true, func(in ssa.Instruction) {
		switch x := in.(type) {
		case *ssa.Select:
			if in == target {
				res = n
			}
			n++
		case *ssa.UnOp:
			if x.Op == token.ARROW {
				if in == target {
					res = n
				}
				n++
			}
		}
	})
	return res
}

// ruleBottomUpOwnership: in the weighted-graph engine's bottom-up resolvers the messages on the
// output channel carry in-memory batches only; the datastore iterators stay owned by the
// resolver goroutine, whose deferred batcher.close stops every one of them.
func ruleBottomUpOwnership(e *Engine, r *Reporter) {
	r.Rule("bottom-up-owner-stops", "internal/check: batcher.flush sends only in-memory (static) iterators, batcher.close stops every source iterator it is given, and each bottom-up set-operation resolver defers batcher.close with its source iterators", 3)
	fl := e.Func("internal/check", "batcher.flush")
	okStatic, n := true, 0
	eachInstr(fl, false, func(in ssa.Instruction) {
		st, ok := in.(*ssa.Store)
		if !ok {
			return
		}
		fa, ok := st.Addr.(*ssa.FieldAddr)
		if !ok || fieldName(fa.X.Type(), fa.Field) != "Iter" {
			return
		}
		n++
		if !strings.Contains(describe_(st.Val), "NewStaticIterator") {
			okStatic = false
		}
	})
	r.Check(okStatic && n > 0, "internal/check.batcher.flush sends static iterators", e.pos(fl.Pos()), "messages carry in-memory batches", "batcher.flush sends an iterator that is not an in-memory batch: consumers (Recursive.execute returns early without Stop) would leak it")
	cl := e.Func("internal/check", "batcher.close")
	stops := false
	eachInstr(cl, false, func(in ssa.Instruction) {
		c, ok := in.(ssa.CallInstruction)
		if !ok || !c.Common().IsInvoke() || c.Common().Method.Name() != "Stop" {
			return
		}
		if strings.Contains(describe_(c.Common().Value), "arg0") {
			stops = true
		}
	})
	r.Check(stops, "internal/check.batcher.close stops the source iterators", e.pos(cl.Pos()), "range iters { it.Stop() }", "batcher.close no longer stops the source iterators: every bottom-up read leaks its datastore iterator")
	for _, name := range []string{"resolveUnion", "resolveIntersection", "resolveDifference"} {
		fn := e.FuncOpt("internal/check", name)
		if fn == nil {
			continue
		}
		deferred := false
		eachInstr(fn, true, func(in ssa.Instruction) {
			c, ok := in.(ssa.CallInstruction)
			if !ok {
				return
			}
			if g := staticCallee(c); g == cl {
				// called from a deferred closure or deferred directly
				if _, isDefer := in.(*ssa.Defer); isDefer || in.Parent() != fn {
					for _, a := range c.Common().Args {
						d := describe_(a)
						if strings.Contains(d, "arg1") || strings.Contains(d, "free:iters") || strings.Contains(d, "iters") {
							deferred = true
						}
					}
				}
			}
		})
		r.Check(deferred, "internal/check."+name+" defers batcher.close(iters)", e.pos(fn.Pos()), "sources released on every exit", name+" no longer releases its source iterators through a deferred batcher.close")
	}
}

package main

// C11: wiring of the cache controller's invalidation markers (mechanism only).

import (
	"go/types"
	"fmt"
	"strings"

	"golang.org/x/tools/go/ssa"
)

func ruleInvalidationWiring(e *Engine, r *Reporter) {
	r.Rule("marker-writer-reader-agreement", "each invalidation marker key the cache controller writes is consulted by both iterator caches (v1 CachedDatastore and v2 CachedTupleReader)", 3)
	for _, k := range []string{"InvalidIteratorCacheKey", "InvalidIteratorByObjectRelationCacheKey", "InvalidIteratorByUserObjectTypeCacheKey"} {
		o := e.FuncObj("pkg/storage", k)
		var writer, v1, v2 bool
		for _, cs := range e.CallSitesOf(o, false) {
			top := topLevel(cs.Parent())
			p := short(pkgOf(top))
			switch {
			case p == "internal/cachecontroller":
				// the key must flow into cache.Set
				if v, ok := cs.(ssa.Value); ok && e.forwardCallees(v)["storage.Set"] {
					writer = true
				}
			case p == "pkg/storage/storagewrappers" && strings.Contains(fname(top), "CachedDatastore"):
				v1 = true
			case p == "pkg/storage/storagewrappers":
				v2 = true
			}
		}
		r.Check(writer && v1 && v2, k, e.pos(e.FnOf(o).Pos()), "written by the controller, read by both iterator caches", fmt.Sprintf("marker key is not used on all three sides (controller writes: %v, v1 cache reads: %v, v2 cache reads: %v): an invalidation of this kind is invisible to a cache", writer, v1, v2))
	}

	r.Rule("hit-behind-marker-test", "an iterator cache entry is returned only after its timestamp was compared with the store-wide marker and every per-entity marker (findInCache -> isInvalidAt; tryGetFromCache -> isStoreInvalidated / isCacheEntryInvalidated)", 3)
	// v1
	fic := e.Func("pkg/storage/storagewrappers", "findInCache")
	iiaName := e.currentName("pkg/storage/storagewrappers", "isInvalidAt")
	n := 0
	for i, rs := range returnSites(fic) {
		if len(rs.Results) != 2 {
			continue
		}
		if bv, ok := constBool(rs.Results[1]); !ok || !bv {
			continue
		}
		n++
		g, _ := mustPass(fic, rs.At, cutSpec{edge: func(f Fact) bool {
			return (f.Kind == "call" || f.Kind == "bool") && !f.Positive && strings.Contains(describe_(f.X), iiaName+"(")
		}})
		lm := false
		eachInstr(fic, false, func(in ssa.Instruction) {
			if c, ok := in.(*ssa.Call); ok {
				if g := staticCallee(c); g != nil && g.Name() == iiaName && strings.HasSuffix(describe_(c.Call.Args[1]), ".LastModified") {
					lm = true
				}
			}
		})
		r.Check(g && lm, fmt.Sprintf("%s | hit return #%d", fname(fic), i), e.instrPos(rs.At), "behind !isInvalidAt(entry.LastModified, …)", "a cached iterator entry can be returned without comparing its LastModified with the invalidation markers")
	}
	if n == 0 {
		r.Bad(fname(fic)+" | hit return", e.pos(fic.Pos()), "no hit return found")
	}
	// isInvalidAt consults the store marker and ranges over all entity markers
	iia := e.Func("pkg/storage/storagewrappers", "isInvalidAt")
	// both the store-wide marker key and the per-entity marker keys reach a cache lookup (directly, through a local
	// predicate, or through a slices helper), and a looked-up marker is compared with the entry's timestamp
	gets := 0
	for _, p := range iia.Params {
		tn := typeBaseName(p.Type())
		if sl, ok := p.Type().Underlying().(*types.Slice); ok {
			tn = typeBaseName(sl.Elem())
		}
		if tn != "Key" && !strings.Contains(strings.ToLower(p.Name()), "key") {
			continue
		}
		fc, _ := e.forwardCalls(p)
		if fc["cache.Get"] || fc["storage.Get"] || fc["Get"] {
			gets++
		} else {
			for k := range fc {
				if strings.HasSuffix(k, ".Get") {
					gets++
					break
				}
			}
		}
	}
	cmp := 0
	eachInstr(iia, true, func(in ssa.Instruction) {
		if c, ok := in.(*ssa.Call); ok {
			if g := c.Call.StaticCallee(); g != nil && g.Name() == "Before" && strings.HasSuffix(describe_(c.Call.Args[1]), ".LastModified") {
				cmp++
			}
		}
	})
	r.Check(gets >= 2 && cmp >= 1, fname(iia)+" | store and entity markers compared", e.pos(iia.Pos()), "both marker kinds looked up and compared with the entry time", fmt.Sprintf("isInvalidAt looks up %d of its 2 marker-key inputs and compares %d looked-up marker(s) with the entry timestamp", gets, cmp))
	// v2
	tg := e.Func("pkg/storage/storagewrappers", "CachedTupleReader.tryGetFromCache")
	n = 0
	for i, rs := range returnSites(tg) {
		if len(rs.Results) != 1 || isNilConst(rs.Results[0]) {
			continue
		}
		n++
		g1, _ := mustPass(tg, rs.At, cutSpec{edge: func(f Fact) bool {
			return f.Kind == "call" && !f.Positive && strings.Contains(describe_(f.X), "isStoreInvalidated(")
		}})
		// the per-entity loop: from the loop body's "invalidated" test the hit return is not reachable on the true edge
		entOK := false
		for _, b := range tg.Blocks {
			for si := range b.Succs {
				for _, f := range edgeFacts(b, si) {
					if f.Kind == "call" && f.Positive && strings.Contains(describe_(f.X), "isCacheEntryInvalidated(") {
						reach := blocksReachableFrom(b.Succs[si])
						if !reach[rs.At.Block()] {
							entOK = true
						}
					}
				}
			}
		}
		r.Check(g1 && entOK, fmt.Sprintf("%s | hit return #%d", fname(tg), i), e.instrPos(rs.At), "behind store-level and entity-level marker tests", fmt.Sprintf("a v2 cached entry can be served without the marker tests (store-level: %v, entity-level: %v)", g1, entOK))
	}
	if n == 0 {
		r.Bad(fname(tg)+" | hit return", e.pos(tg.Pos()), "no hit return found")
	}

	r.Rule("controller-invalidation-logic", "findChangesAndInvalidateIfNecessary: the no-new-changes shortcut compares the newest change with the cached entry's LastModified; a failed changelog read invalidates the whole store; every partial change writes both the object-relation and the user-object-type marker", 4)
	fc := e.Func("internal/cachecontroller", "InMemoryCacheController.findChangesAndInvalidateIfNecessary")
	// (1) the After comparison's argument derives from ChangelogCacheEntry.LastModified (or zero time)
	okCmp := false
	detail := ""
	for _, b := range fc.Blocks {
		for si := range b.Succs {
			for _, f := range edgeFacts(b, si) {
				if f.Kind != "call" || f.Call == nil {
					continue
				}
				g := f.Call.Common().StaticCallee()
				if g == nil || g.Name() != "After" {
					continue
				}
				d := describeDeep(f.Call.Common().Args[1])
				if strings.Contains(d, "ChangelogCacheEntry)") || strings.Contains(d, "LastModified") || strings.Contains(d, "LastChecked") {
					detail = d
					if strings.Contains(d, ".LastModified") && !strings.Contains(d, ".LastChecked") {
						okCmp = true
					}
				}
			}
		}
	}
	r.Check(okCmp, fname(fc)+" | shortcut compares with LastModified", e.pos(fc.Pos()), "newest change vs cached LastModified", "the 'no new changes' shortcut does not compare against the cached entry's LastModified ("+detail+"): a write that lands between two runs can be skipped forever")
	// (2) error path invalidates the store
	inv := e.Func("internal/cachecontroller", "InMemoryCacheController.invalidateIteratorCache")
	errInv := false
	for _, b := range fc.Blocks {
		for si := range b.Succs {
			for _, f := range edgeFacts(b, si) {
				if f.Kind == "nil" && !f.Positive && isErrorType(f.X.Type()) {
					reach := blocksReachableFrom(b.Succs[si])
					for blk := range reach {
						for _, in := range blk.Instrs {
							if c, ok := in.(ssa.CallInstruction); ok && staticCallee(c) == inv && blk == b.Succs[si] {
								errInv = true
							}
						}
					}
				}
			}
		}
	}
	r.Check(errInv, fname(fc)+" | changelog read error invalidates the store", e.pos(fc.Pos()), "invalidateIteratorCache on error", "when reading the changelog fails the iterator cache is left valid (stale entries keep being served)")
	// (3) for one change both per-entity markers are written: some block of the per-change loop (directly or through
	// same-package helpers, two levels) performs a cache.Set on a key from InvalidIteratorByObjectRelationCacheKey
	// and one on a key from InvalidIteratorByUserObjectTypeCacheKey
	var kindsOf func(in ssa.Instruction, depth int) map[string]bool
	kindsOf = func(in ssa.Instruction, depth int) map[string]bool {
		out := map[string]bool{}
		c, ok := in.(ssa.CallInstruction)
		if !ok {
			return out
		}
		if isCacheSet(c) && len(c.Common().Args) > 0 {
			d := ""
			for _, a := range c.Common().Args {
				d += describe_(a) + " "
			}
			for _, k := range []string{"InvalidIteratorByObjectRelationCacheKey", "InvalidIteratorByUserObjectTypeCacheKey"} {
				if strings.Contains(d, k+"(") {
					out[k] = true
				}
			}
			return out
		}
		if g := staticCallee(c); g != nil && depth > 0 && len(g.Blocks) > 0 && pkgOf(g) == pkgOf(fc) {
			eachInstr(g, false, func(in2 ssa.Instruction) {
				for k := range kindsOf(in2, depth-1) {
					out[k] = true
				}
			})
		}
		return out
	}
	both := false
	for _, blk := range fc.Blocks {
		got := map[string]bool{}
		for _, in := range blk.Instrs {
			for k := range kindsOf(in, 2) {
				got[k] = true
			}
		}
		if len(got) == 2 {
			both = true
		}
	}
	r.Check(both, fname(fc)+" | partial invalidation writes both markers per change", e.pos(fc.Pos()), "object-relation and user-object-type markers written together", "a changed tuple no longer invalidates both the object#relation iterators and the user/object-type iterators")
	// (4) the entry stored records the newest change time
	okEntry := false
	eachInstr(fc, false, func(in ssa.Instruction) {
		c, ok := in.(ssa.CallInstruction)
		if !ok || !isCacheSet(c) {
			return
		}
		d := describe_(c.Common().Args[1])
		if strings.Contains(d, "LastModified=") && strings.Contains(d, "GetTimestamp().AsTime()") {
			okEntry = true
		}
	})
	r.Check(okEntry, fname(fc)+" | changelog entry records the newest change time", e.pos(fc.Pos()), "LastModified = changes[0].Timestamp", "the changelog cache entry's LastModified is not the newest change's timestamp: the query cache compares its entries against the wrong time")

	r.Rule("invalidation-time-wired", "the query cache's validity time comes from CacheController.DetermineInvalidationTime of the request's own store", 2)
	for _, spec := range []struct{ pkg, fn string }{{"pkg/server/commands", "CheckQuery.Execute"}, {"pkg/server", "Server.v2Check"}} {
		fn := e.Func(spec.pkg, spec.fn)
		found, ok := false, false
		eachInstr(fn, true, func(in ssa.Instruction) {
			c, isCall := in.(ssa.CallInstruction)
			if !isCall || !c.Common().IsInvoke() || c.Common().Method.Name() != "DetermineInvalidationTime" {
				return
			}
			found = true
			if e.isStoreSource(c.Common().Args[1], 4) {
				ok = true
			}
		})
		if !found {
			eachInstr(fn, true, func(in ssa.Instruction) {
				via, isCall := in.(ssa.CallInstruction)
				if !isCall {
					return
				}
				h := staticCallee(via)
				if h == nil || len(h.Blocks) == 0 || pkgOf(h) != pkgOf(fn) {
					return
				}
				eachInstr(h, true, func(in2 ssa.Instruction) {
					c, isCall := in2.(ssa.CallInstruction)
					if !isCall || !c.Common().IsInvoke() || c.Common().Method.Name() != "DetermineInvalidationTime" {
						return
					}
					found = true
					if e.isStoreSource(c.Common().Args[1], 4) || e.isStoreSource(atCaller(c.Common().Args[1], via), 4) {
						ok = true
					}
				})
			})
		}
		r.Check(found && ok, fname(fn)+" | DetermineInvalidationTime(store of the request)", e.pos(fn.Pos()), "called with the request's store", "the invalidation time is not taken for the request's own store")
	}
}

package main

// C17: model writes are validated, get a fresh monotonic id, and the latest-model lookup is not cached.

import (
	"fmt"
	"strings"

	"golang.org/x/tools/go/ssa"
)

func ruleModelWrite(e *Engine, r *Reporter) {
	r.Rule("model-write-validated-fresh-id", "WriteAuthorizationModel on a backend is called only from the write command (and delegating wrappers), behind a successful typesystem.NewAndValidate of the same model value, whose id is ulid.Make() (the process-wide monotonic source)", 4)
	cmd := e.Func("pkg/server/commands", "WriteAuthorizationModelCommand.Execute")
	var write, validate ssa.CallInstruction
	eachInstr(cmd, false, func(in ssa.Instruction) {
		c, ok := in.(ssa.CallInstruction)
		if !ok {
			return
		}
		if c.Common().IsInvoke() && c.Common().Method.Name() == "WriteAuthorizationModel" {
			write = c
		}
		if g := staticCallee(c); g != nil && g.Name() == "NewAndValidate" {
			validate = c
		}
	})
	if write == nil {
		blind("model-write: backend call not found in the command")
	}
	if validate == nil {
		r.Bad(fname(cmd)+" | model validated before persisted", e.pos(cmd.Pos()), "typesystem.NewAndValidate is no longer called before the model is written")
	} else {
		g, _ := mustPass(cmd, write, cutSpec{edge: func(f Fact) bool {
			return f.Kind == "nil" && f.Positive && derivesFrom(f.X, func(v ssa.Value) bool { return v == validate.(ssa.Value) })
		}})
		same := validate.Common().Args[len(validate.Common().Args)-1] == write.Common().Args[len(write.Common().Args)-1]
		r.Check(g && same, fname(cmd)+" | model validated before persisted", e.instrPos(write), "write behind NewAndValidate(model)==nil of the same value", fmt.Sprintf("the backend write is not guarded by a successful validation of the same model value (guarded: %v, same value: %v)", g, same))
	}
	// id source
	model := describe_(write.Common().Args[len(write.Common().Args)-1])
	r.Check(strings.Contains(model, "Id=ulid.Make().String()"), fname(cmd)+" | id from ulid.Make()", e.instrPos(write), "monotonic ULID", "the model id is not taken from ulid.Make() (the monotonic entropy source): two models written in the same millisecond can get ids in the wrong order, and 'latest' resolves to the older one — "+model)
	// store id passed through unchanged
	r.Check(e.isStoreSource(write.Common().Args[1], 2), fname(cmd)+" | written to the request's store", e.instrPos(write), "store = req.GetStoreId()", "the model is not written to the request's store")
	// who calls the backend method
	im := e.IfaceMethod("pkg/storage", "TypeDefinitionWriteBackend", "WriteAuthorizationModel")
	for _, cs := range e.CallSitesOf(im, false) {
		top := topLevel(cs.Parent())
		ok := top == cmd || top.Name() == "WriteAuthorizationModel" // delegating wrappers implement the same method
		r.Check(ok, fmt.Sprintf("%s | calls WriteAuthorizationModel", fname(top)), e.instrPos(cs), "the command or a delegating wrapper", "a model is persisted from a place that does not validate it")
	}

	r.Rule("latest-model-not-cached", "no implementation or wrapper of FindLatestAuthorizationModel serves its answer from the model cache (only singleflight coalescing), and the typesystem cache is keyed by the resolved model id", 3)
	fl := e.IfaceMethod("pkg/storage", "AuthorizationModelReadBackend", "FindLatestAuthorizationModel")
	for _, impl := range e.Implementations(fl) {
		if isTestSupport(pkgOf(impl)) {
			continue
		}
		usesCache := false
		eachInstr(impl, true, func(in ssa.Instruction) {
			if c, ok := in.(ssa.CallInstruction); ok && isInMemoryCacheGet(c) {
				usesCache = true
			}
		})
		r.Check(!usesCache, fname(impl), e.pos(impl.Pos()), "not served from a cache", "the latest-model lookup is answered from a cache: a request without model id keeps using the previous model after a newer one was written")
	}
	// typesystem resolver: the cache key's model component is the resolved id
	for _, kf := range e.keyFunctions() {
		if !strings.Contains(fname(kf.fn), "MemoizedTypesystemResolverFunc") {
			continue
		}
		ok := false
		for _, en := range kf.encodes {
			if strings.Contains(en.text, "FindLatestAuthorizationModel") && strings.Contains(en.text, "GetId()") {
				ok = true
			}
		}
		r.Check(ok, fname(kf.fn)+" | typesystem key uses the resolved id", e.pos(kf.fn.Pos()), "key = (store, resolved model id)", "the typesystem cache key is not built from the resolved latest model id (a model-less request would stick to whatever was cached first)")
	}
}

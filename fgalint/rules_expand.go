package main

// C30: Expand mirrors the rewrite.

import (
	"fmt"
	"go/ast"
	"go/types"
	"strings"

	"golang.org/x/tools/go/ssa"
)

func ruleExpand(e *Engine, r *Reporter) {
	r.Rule("expand-node-mirrors-rewrite", "ExpandQuery.resolveUserset dispatches every rewrite kind (unknown kinds fail) to a resolver that builds the tree node of the same kind, named toObjectRelation(tk); Difference keeps base and subtract in order; resolveUsersets stores child i at index i", 9)
	p := e.Pkg("pkg/server/commands")
	want := map[string]string{
		"Userset_This":            "UsersetTree_Leaf_Users",
		"Userset_ComputedUserset": "UsersetTree_Leaf_Computed",
		"Userset_TupleToUserset":  "UsersetTree_Leaf_TupleToUserset",
		"Userset_Union":           "UsersetTree_Node_Union",
		"Userset_Intersection":    "UsersetTree_Node_Intersection",
		"Userset_Difference":      "UsersetTree_Node_Difference",
	}
	seenCase := map[string]bool{}
	for _, f := range p.Syntax {
		for _, d := range f.Decls {
			fd, ok := d.(*ast.FuncDecl)
			if !ok || funcDeclName(fd) != "ExpandQuery.resolveUserset" {
				continue
			}
			ast.Inspect(fd, func(n ast.Node) bool {
				ts, ok := n.(*ast.TypeSwitchStmt)
				if !ok {
					return true
				}
				for _, c := range ts.Body.List {
					cc := c.(*ast.CaseClause)
					if cc.List == nil {
						r.Check(failsClosed(p.TypesInfo, cc.Body), "resolveUserset default", e.pos(cc.Pos()), "unknown rewrite kinds are an error", "the default branch of the rewrite dispatch does not fail")
						continue
					}
					// callee of the return statement
					callee := ""
					var calleeFn *ssa.Function
					for _, st := range cc.Body {
						if rs, ok := st.(*ast.ReturnStmt); ok && len(rs.Results) == 1 {
							if call, ok := rs.Results[0].(*ast.CallExpr); ok {
								// a method of the query or a package-level function: resolved through the type checker
								var id *ast.Ident
								switch fx := call.Fun.(type) {
								case *ast.SelectorExpr:
									id = fx.Sel
								case *ast.Ident:
									id = fx
								}
								if id != nil {
									callee = id.Name
									if fo, ok := p.TypesInfo.Uses[id].(*types.Func); ok {
										calleeFn = e.FnOf(fo)
									}
								}
							}
						}
					}
					for _, ex := range cc.List {
						tv := p.TypesInfo.Types[ex]
						if tv.IsNil() {
							continue
						}
						kind := typeBaseName(tv.Type)
						seenCase[kind] = true
						exp := want[kind]
						fn := calleeFn
						key := "resolveUserset case " + kind
						if fn == nil || exp == "" {
							r.Bad(key, e.pos(cc.Pos()), "case does not return the result of an ExpandQuery resolver")
							continue
						}
						ok := false
						named := false
						for _, rs := range returnSites(fn) {
							if len(rs.Results) != 2 || isNilConst(rs.Results[0]) {
								continue
							}
							d := describe_(rs.Results[0])
							if strings.Contains(d, exp+"{") {
								ok = true
							}
							if strings.Contains(d, "Name=commands.toObjectRelation(arg") {
								named = true
							}
							_ = d
						}
						r.Check(ok && named, key, e.pos(cc.Pos()), fmt.Sprintf("%s builds %s named after the expanded object#relation", callee, exp), fmt.Sprintf("the %s rewrite is resolved by %s, which does not build a %s node named toObjectRelation(tk) (kind ok: %v, name ok: %v)", kind, callee, exp, ok, named))
					}
				}
				return true
			})
		}
	}
	for k := range want {
		if !seenCase[k] {
			r.Bad("resolveUserset case "+k, "", "rewrite kind "+k+" is not dispatched by Expand")
		}
	}
	// Difference order
	df := e.Func("pkg/server/commands", "ExpandQuery.resolveDifferenceUserset")
	orderOK, fieldsOK := false, false
	eachInstr(df, false, func(in ssa.Instruction) {
		if c, ok := in.(*ssa.Call); ok {
			if g := staticCallee(c); g != nil && g.Name() == "resolveUsersets" {
				d := describe_(c.Call.Args[3])
				i, j := strings.Index(d, "GetBase()"), strings.Index(d, "GetSubtract()")
				orderOK = i >= 0 && j > i
			}
		}
	})
	for _, rs := range returnSites(df) {
		if len(rs.Results) == 2 && !isNilConst(rs.Results[0]) {
			d := describe_(rs.Results[0])
			if strings.Contains(d, "Base=") && strings.Contains(d, "Subtract=") {
				bi := strings.Index(d, "Base=")
				si := strings.Index(d, ",Subtract=")
				if bi >= 0 && si > bi {
					b := d[bi:si]
					s := strings.TrimRight(d[si:], "}")
					fieldsOK = strings.HasSuffix(b, "[0]") && strings.HasSuffix(s, "[1]")
				}
			}
		}
	}
	r.Check(orderOK && fieldsOK, "resolveDifferenceUserset base/subtract order", e.pos(df.Pos()), "children resolved as [base, subtract]; Base=nodes[0], Subtract=nodes[1]", "base and subtract of a Difference node are swapped or taken from the wrong child")
	// resolveUsersets: out[i] = node with i the range index
	ru := e.Func("pkg/server/commands", "ExpandQuery.resolveUsersets")
	idxOK := false
	eachInstr(ru, true, func(in ssa.Instruction) {
		st, ok := in.(*ssa.Store)
		if !ok {
			return
		}
		ia, ok := st.Addr.(*ssa.IndexAddr)
		if !ok {
			return
		}
		if strings.Contains(describe_(st.Val), "resolveUserset(") && (strings.Contains(describe_(ia.Index), "free:i") || strings.Contains(describe_(ia.Index), "loop")) {
			idxOK = true
		}
	})
	r.Check(idxOK, "resolveUsersets child order", e.pos(ru.Pos()), "out[i] = node for the i-th rewrite", "children are not stored at the index of the rewrite they expand (order of union/intersection children, and base vs subtract, is no longer that of the model)")

	r.Rule("expand-leaf-users", "resolveThis and resolveTupleToUserset read through the model filter (no condition evaluation by design), collect users through a set, and resolveThis sorts the users on every path to the leaf", 3)
	rt := e.Func("pkg/server/commands", "ExpandQuery.resolveThis")
	var sortCall ssa.Instruction
	eachInstr(rt, false, func(in ssa.Instruction) {
		if isSortCall(in) {
			sortCall = in
		}
	})
	sorted := sortCall != nil
	if sorted {
		for _, rs := range returnSites(rt) {
			if len(rs.Results) == 2 && !isNilConst(rs.Results[0]) {
				if g, _ := mustPass(rt, rs.At, cutSpec{instr: func(in ssa.Instruction) bool { return in == sortCall }}); !g {
					sorted = false
				}
			}
		}
	}
	r.Check(sorted, "resolveThis users sorted", e.pos(rt.Pos()), "slices.Sort(users) precedes the leaf", "the users of a direct-assignment leaf are returned in map-iteration order")
	// de-duplication: users slice is built by ranging over a map keyed by user
	dedup := false
	eachInstr(rt, false, func(in ssa.Instruction) {
		if mu, ok := in.(*ssa.MapUpdate); ok && strings.Contains(describe_(mu.Key), "GetUser()") {
			dedup = true
		}
	})
	r.Check(dedup, "resolveThis users de-duplicated", e.pos(rt.Pos()), "collected through a set keyed by user", "users are appended directly (duplicates from stored + contextual tuples appear twice)")
	tt := e.Func("pkg/server/commands", "ExpandQuery.resolveTupleToUserset")
	seenGuard := false
	eachInstr(tt, false, func(in ssa.Instruction) {
		c, ok := in.(*ssa.Call)
		if !ok {
			return
		}
		if b, ok := c.Call.Value.(*ssa.Builtin); ok && b.Name() == "append" && strings.Contains(describe_(c), "UsersetTree_Computed") {
			for _, f := range controlFacts(in.Block()) {
				if strings.Contains(describe_(f.X), "[") && !f.Positive {
					seenGuard = true
				}
			}
		}
	})
	r.Check(seenGuard, "resolveTupleToUserset computed usersets de-duplicated", e.pos(tt.Pos()), "append behind !seen[key]", "computed usersets of a TTU leaf are no longer de-duplicated")
}

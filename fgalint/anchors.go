package main

// Name anchors and their rename fallback.
//
// Most rules find their functions by role (who reads a tuple reader, who writes which cache key, who implements
// which interface).  A few dozen are anchored on the name of one specific function.  So that a pure rename of
// such a function does not make a rule go blind, `fgalint anchors` records, for every name anchor a run asked
// for, its signature and the names that existed in its package on the reviewed tree (fgalint/anchors.json).
// When an anchor no longer resolves by name, the unique function of the same package (and receiver) that has
// the pinned signature and a name that did not exist on the reviewed tree takes its place; if there is no such
// unique function the rule goes blind as before.  The table is only ever used for this fallback.

import (
	"encoding/json"
	"fmt"
	"go/types"
	"os"
	"path/filepath"
	"strings"
	"sync"

	"golang.org/x/tools/go/ssa"
)

type anchorInfo struct {
	Sig string `json:"sig"`
}

type anchorTable struct {
	Anchors map[string]anchorInfo `json:"anchors"` // "rel :: name"
	Names   map[string]map[string]string `json:"names"` // rel -> qualified name -> signature, for every function/method of every module package on the reviewed tree
}

var (
	anchorMu    sync.Mutex
	anchorsSeen = map[string]*types.Func{}
	pinned      *anchorTable
	renamedNote = map[string]string{}
)

func noteAnchor(rel, name string, f *types.Func) {
	anchorMu.Lock()
	defer anchorMu.Unlock()
	if f != nil {
		anchorsSeen[rel+" :: "+name] = f
	}
}

func sigString(f *types.Func) string {
	sig := f.Type().(*types.Signature)
	q := func(p *types.Package) string { return p.Path() }
	tup := func(t *types.Tuple) string {
		var parts []string
		for i := 0; i < t.Len(); i++ {
			parts = append(parts, types.TypeString(t.At(i).Type(), q)) // types only: parameter names may change
		}
		return "(" + strings.Join(parts, ", ") + ")"
	}
	s := "func" + tup(sig.Params()) + " " + tup(sig.Results())
	if sig.Variadic() {
		s += " variadic"
	}
	if r := sig.Recv(); r != nil {
		s = "(" + types.TypeString(r.Type(), q) + ") " + s
	}
	return s
}

func allFuncs(p *types.Package) map[string]*types.Func {
	out := map[string]*types.Func{}
	sc := p.Scope()
	for _, n := range sc.Names() {
		switch o := sc.Lookup(n).(type) {
		case *types.Func:
			out[n] = o
		case *types.TypeName:
			if o.IsAlias() {
				continue
			}
			if named, ok := o.Type().(*types.Named); ok {
				for i := 0; i < named.NumMethods(); i++ {
					out[n+"."+named.Method(i).Name()] = named.Method(i)
				}
			}
		}
	}
	return out
}

var (
	renameOf  = map[*types.Func]string{} // current function -> its qualified name on the reviewed tree
	renameRev = map[string]*types.Func{} // "rel :: pinned qualified name" -> current function
	renameCur = map[string]string{}      // "rel :: current qualified name" -> pinned qualified name
)

// computeRenames recognises pure renames: in a package, a function whose name did not exist on the reviewed tree and
// whose signature (receiver included) equals that of exactly one function that has disappeared — and no other new
// function competes for it — is that function under a new name.
func (e *Engine) computeRenames() {
	t := loadPinned()
	renameOf = map[*types.Func]string{}
	renameRev = map[string]*types.Func{}
	renameCur = map[string]string{}
	for _, p := range e.modulePackages(false) {
		rel := short(p.PkgPath)
		pinnedNames, ok := t.Names[rel]
		if !ok {
			continue
		}
		cur := allFuncs(p.Types)
		vanishedBySig := map[string][]string{}
		for n, sg := range pinnedNames {
			if _, still := cur[n]; !still {
				vanishedBySig[sg] = append(vanishedBySig[sg], n)
			}
		}
		appearedBySig := map[string][]string{}
		for n, f := range cur {
			if _, was := pinnedNames[n]; !was {
				sg := sigString(f)
				appearedBySig[sg] = append(appearedBySig[sg], n)
			}
		}
		for sg, news := range appearedBySig {
			olds := vanishedBySig[sg]
			if len(news) != 1 || len(olds) != 1 {
				continue
			}
			f := cur[news[0]]
			renameOf[f] = olds[0]
			renameRev[rel+" :: "+olds[0]] = f
			renameCur[rel+" :: "+news[0]] = olds[0]
		}
	}
}

// pinnedSpelling rewrites the printed name of a function (or of a closure inside it) to the name it had on the
// reviewed tree when it was recognised as renamed, so obligation keys and name-keyed tables stay stable.
func pinnedSpelling(fn *ssa.Function, s string) string {
	if len(renameOf) == 0 {
		return s
	}
	top := canon(topLevel(fn))
	o, ok := top.Object().(*types.Func)
	if !ok {
		return s
	}
	old, ok := renameOf[o]
	if !ok {
		return s
	}
	if i := strings.LastIndex(old, "."); i >= 0 {
		old = old[i+1:]
	}
	needle := "." + o.Name()
	if i := strings.Index(s, needle); i >= 0 {
		j := i + len(needle)
		if j == len(s) || s[j] == '$' || s[j] == '[' {
			return s[:i] + "." + old + s[j:]
		}
	}
	return s
}

// pinnedQualified maps a current qualified name ("T.m" or "f") of package rel to its reviewed-tree name.
func pinnedQualified(rel, cur string) string {
	if old, ok := renameCur[rel+" :: "+cur]; ok {
		return old
	}
	return cur
}

func loadPinned() *anchorTable {
	if pinned != nil {
		return pinned
	}
	pinned = &anchorTable{Anchors: map[string]anchorInfo{}, Names: map[string]map[string]string{}}
	b, err := os.ReadFile(filepath.Join(verifDir, "fgalint", "anchors.json"))
	if err == nil {
		json.Unmarshal(b, pinned)
	}
	return pinned
}

func (e *Engine) renamedAnchor(rel, name string) *types.Func {
	return renameRev[rel+" :: "+name]
}

// cmdAnchors regenerates fgalint/anchors.json from the current tree (run on a reviewed tree only).
func cmdAnchors() int {
	e, err := loadEngineForAnchors()
	if err != nil {
		fmt.Fprintln(os.Stderr, err)
		return 2
	}
	t := anchorTable{Anchors: map[string]anchorInfo{}, Names: map[string]map[string]string{}}
	for _, p := range e.modulePackages(false) {
		m := map[string]string{}
		for n, f := range allFuncs(p.Types) {
			m[n] = sigString(f)
		}
		t.Names[short(p.PkgPath)] = m
	}
	b, _ := json.MarshalIndent(t, "", " ")
	fmt.Println(string(b))
	return 0
}

// currentName: the name the anchored function carries on the analysed tree (its own name, or the new one after
// a rename recognised by renamedAnchor); the pinned name when it cannot be resolved (the caller then reports).
func (e *Engine) currentName(rel, name string) string {
	if f := e.funcObjOpt(rel, name); f != nil {
		return f.Name()
	}
	if i := strings.LastIndex(name, "."); i >= 0 {
		return name[i+1:]
	}
	return name
}

func loadEngineForAnchors() (*Engine, error) {
	pinned = &anchorTable{Anchors: map[string]anchorInfo{}, Names: map[string]map[string]string{}} // generate from names as they are
	return Load(repoDir, nil, nil)
}

package main

// C09: iterator caches — only complete reads are stored, elision and reconstruction agree.

import (
	"fmt"
	"go/token"
	"go/types"
	"sort"
	"strings"

	"golang.org/x/tools/go/ssa"
)

func isIterCacheEntry(t types.Type) bool {
	n := typeBaseName(t)
	return n == "TupleIteratorCacheEntry" || n == "V2IteratorCacheEntry"
}

func isCacheSet(c ssa.CallInstruction) bool {
	cc := c.Common()
	if !cc.IsInvoke() || cc.Method.Name() != "Set" {
		return false
	}
	if n, ok := cc.Value.Type().(*types.Named); ok {
		return n.Obj().Name() == "InMemoryCache"
	}
	return false
}

// iteratorFlushers: functions that store an iterator cache entry.
func (e *Engine) iteratorFlushers() []*ssa.Function {
	var out []*ssa.Function
	for _, fn := range e.Fns {
		if isTestSupport(pkgOf(fn)) || fn.Parent() != nil {
			continue
		}
		found := false
		eachInstr(fn, false, func(in ssa.Instruction) {
			c, ok := in.(ssa.CallInstruction)
			if !ok || !isCacheSet(c) || len(c.Common().Args) < 2 {
				return
			}
			if isIterCacheEntry(unwrap(c.Common().Args[1]).Type()) {
				found = true
			}
		})
		if found {
			out = append(out, fn)
		}
	}
	return out
}

func isIteratorDoneFact(f Fact) bool {
	if f.Kind != "call" || !f.Positive || f.Call == nil {
		return false
	}
	g := f.Call.Common().StaticCallee()
	if g == nil || g.Pkg == nil || g.Pkg.Pkg.Path() != "errors" || g.Name() != "Is" {
		return false
	}
	args := f.Call.Common().Args
	if len(args) != 2 {
		return false
	}
	return strings.HasSuffix(describe_(args[1]), "storage.ErrIteratorDone")
}

func ruleFlushOnlyWhenDone(e *Engine, r *Reporter) {
	r.Rule("flush-only-when-done", "an iterator result is stored in the cache only on a path where the underlying iterator reported ErrIteratorDone (errors.Is(err, storage.ErrIteratorDone) is true): partial reads — cancelled, timed out, failed — are never stored as complete", 4)
	fl := e.iteratorFlushers()
	if len(fl) < 2 {
		blind("flush-only-when-done: found %d iterator flush functions, expected at least 2", len(fl))
	}
	cut := cutSpec{edge: isIteratorDoneFact}
	for _, f := range fl {
		sites := e.callers[canon(f)]
		if len(sites) == 0 {
			r.Bad(fname(f)+" | no static caller", e.pos(f.Pos()), "flush function is reached only dynamically; cannot establish the done-guard")
			continue
		}
		for _, cs := range sites {
			if isTestSupport(pkgOf(cs.Parent())) {
				continue
			}
			top := topLevel(cs.Parent())
			g := e.guardedAnyLevel(cs, cut)
			r.Check(g, fmt.Sprintf("%s | call of %s #%d", fname(top), shortFuncName(f), ordinalIn(top, cs)), e.instrPos(cs),
				"behind errors.Is(err, ErrIteratorDone)", "the buffered tuples can be written to the iterator cache on a path where the underlying iterator did not report ErrIteratorDone (a cancelled or timed-out read would be cached as the complete result)")
		}
		// LastModified of the stored entry is the query start time kept in the receiver, not the flush time
		eachInstr(f, false, func(in ssa.Instruction) {
			c, ok := in.(ssa.CallInstruction)
			if !ok || !isCacheSet(c) {
				return
			}
			d := describe_(c.Common().Args[1])
			i := strings.Index(d, "LastModified=")
			if i < 0 {
				r.Bad(fname(f)+" | entry.LastModified", e.instrPos(in), "cache entry stored without LastModified: invalidation cannot tell it from a fresh entry")
				return
			}
			rest := d[i+len("LastModified="):]
			okLM := strings.HasPrefix(rest, "recv.")
			r.Check(okLM, fname(f)+" | entry.LastModified", e.instrPos(in), "LastModified="+firstToken(rest), "LastModified is not the query start time kept in the iterator ("+firstToken(rest)+"): an invalidation that happened while the query ran would be ignored")
		})
	}
}

func firstToken(s string) string {
	for i, c := range s {
		if c == ',' || c == '}' {
			return s[:i]
		}
	}
	return s
}

// ruleBufferDroppedOnError: in the caching iterators' Next, an error that is not
// done-or-cancelled drops the buffer.
func ruleBufferDroppedOnError(e *Engine, r *Reporter) {
	r.Rule("buffer-dropped-on-error", "in cachedIterator.Next and CachingIterator.Next an error of the underlying iterator that is not done-or-cancelled sets the buffer to nil before returning", 2)
	for _, x := range []string{"cachedIterator.Next", "CachingIterator.Next"} {
		fn := e.Func("pkg/storage/storagewrappers", x)
		ok := false
		eachInstr(fn, false, func(in ssa.Instruction) {
			st, isSt := in.(*ssa.Store)
			if !isSt || !isNilConst(st.Val) {
				return
			}
			fa, isFA := st.Addr.(*ssa.FieldAddr)
			if !isFA || fieldName(fa.X.Type(), fa.Field) != "tuples" {
				return
			}
			for _, f := range controlFacts(in.Block()) {
				if f.Kind == "call" && !f.Positive && f.Call != nil {
					if g := f.Call.Common().StaticCallee(); g != nil && g.Name() == "IterIsDoneOrCancelled" {
						ok = true
					}
				}
			}
		})
		r.Check(ok, "storagewrappers."+x, e.pos(fn.Pos()), "tuples=nil under !IterIsDoneOrCancelled(err)", "a failed read no longer discards the buffer: the tuples read before the failure can later be flushed as a complete result")
	}
}

// structFieldsWritten: fields of struct type named tn stored in fn (composite literal or later stores).
func structFieldsWritten(fn *ssa.Function, tn string) map[string]bool {
	out := map[string]bool{}
	eachInstr(fn, true, func(in ssa.Instruction) {
		st, ok := in.(*ssa.Store)
		if !ok {
			return
		}
		fa, ok := st.Addr.(*ssa.FieldAddr)
		if !ok {
			return
		}
		if typeBaseName(fa.X.Type()) == tn || typeBaseName(derefType(fa.X.Type())) == tn {
			if c, isC := st.Val.(*ssa.Const); isC && c.Value != nil && c.Value.ExactString() == `""` {
				return // blanking is not a write of data
			}
			out[fieldName(fa.X.Type(), fa.Field)] = true
		}
	})
	return out
}

func structFieldsBlanked(fn *ssa.Function, tn string) map[string]bool {
	out := map[string]bool{}
	eachInstr(fn, true, func(in ssa.Instruction) {
		st, ok := in.(*ssa.Store)
		if !ok {
			return
		}
		fa, ok := st.Addr.(*ssa.FieldAddr)
		if !ok || typeBaseName(derefType(fa.X.Type())) != tn {
			return
		}
		if c, isC := st.Val.(*ssa.Const); isC && c.Value != nil && c.Value.ExactString() == `""` {
			out[fieldName(fa.X.Type(), fa.Field)] = true
		}
	})
	return out
}

func derefType(t types.Type) types.Type {
	if p, ok := t.Underlying().(*types.Pointer); ok {
		return p.Elem()
	}
	return t
}

// structFieldsRead: fields of the parameter (pointer to struct) read in fn.
func (e *Engine) structFieldsReadFromParam(fn *ssa.Function, tn string) map[string]bool {
	out := map[string]bool{}
	for _, p := range fn.Params {
		if typeBaseName(derefType(p.Type())) != tn {
			continue
		}
		for k := range e.accessPaths(fn, p, 2) {
			k = strings.TrimSuffix(k, "!")
			if i := strings.Index(k, "."); i >= 0 {
				k = k[:i]
			}
			if k != "" {
				out[k] = true
			}
		}
	}
	return out
}

func keysOf(m map[string]bool) []string {
	var out []string
	for k := range m {
		out = append(out, k)
	}
	sort.Strings(out)
	return out
}

func ruleElisionAgreement(e *Engine, r *Reporter) {
	r.Rule("cache-record-roundtrip", "every field the caching iterators write into a cached record is read back when the tuple is rebuilt, and every field blanked because the iterator knows it is restored from the iterator's own value", 10)
	// writer and reader are found by role, not by name: the writer is the storagewrappers function that stores the
	// most fields into a value of the record type; the reader is the one that takes a record and returns a tuple
	pkg := "pkg/storage/storagewrappers"
	for _, typ := range []string{"TupleRecord", "MinimalCacheEntry"} {
		var w, rd *ssa.Function
		best := 0
		for _, fn := range e.Fns {
			if short(pkgOf(fn)) != pkg || fn.Parent() != nil {
				continue
			}
			if n := len(structFieldsWritten(fn, typ)); n > best {
				best, w = n, fn
			}
			res := fn.Signature.Results()
			if res.Len() >= 1 && typeBaseName(derefType(res.At(0).Type())) == "Tuple" && len(e.structFieldsReadFromParam(fn, typ)) >= 2 {
				rd = fn
			}
		}
		if w == nil || rd == nil {
			blind("cache-record-roundtrip: writer or reader of %s not found in %s", typ, pkg)
		}
		written := structFieldsWritten(w, typ)
		read := e.structFieldsReadFromParam(rd, typ)
		if len(written) < 3 {
			blind("cache-record-roundtrip: %s writes only %v of %s", fname(w), keysOf(written), typ)
		}
		recName := ""
		for _, p := range rd.Params {
			if typeBaseName(derefType(p.Type())) == typ {
				recName = paramName(p)
			}
		}
		for _, f := range keysOf(written) {
			r.Check(read[f], fmt.Sprintf("%s record field=%s", typ, f), e.pos(rd.Pos()), "written by "+shortFuncName(w)+" and read back by "+shortFuncName(rd), fmt.Sprintf("field %s is stored in the cached record (%s) but not used when the tuple is rebuilt (%s): cached reads return tuples that differ from the uncached ones", f, shortFuncName(w), shortFuncName(rd)))
		}
		// blanked fields are restored through a merge (phi) of the record's value and a value the iterator holds
		for _, f := range keysOf(structFieldsBlanked(w, typ)) {
			restored := false
			eachInstr(rd, false, func(in ssa.Instruction) {
				ph, ok := in.(*ssa.Phi)
				if !ok {
					return
				}
				fromRec, fromOther := false, false
				for _, ed := range ph.Edges {
					d := describe_(ed)
					if strings.HasPrefix(d, recName+".") && strings.HasSuffix(d, "."+f) {
						fromRec = true
					} else if !strings.HasPrefix(d, recName+".") && d != `""` {
						fromOther = true
					}
				}
				if fromRec && fromOther {
					restored = true
				}
			})
			r.Check(restored, fmt.Sprintf("%s record elided=%s", typ, f), e.pos(rd.Pos()), "elided value restored from the iterator", fmt.Sprintf("field %s is blanked in the cached record when the iterator knows it, but the rebuild does not substitute the iterator's value: cached tuples come back with an empty %s", f, f))
		}
	}
}

// ruleSharedFillContext: data that is shared between requests is fetched under a context that
// does not belong to one of them.
func ruleSharedFillContext(e *Engine, r *Reporter) {
	r.Rule("shared-fill-context", "the shared iterator's batch fetch reads the underlying iterator under context.Background(), never under a caller's request context (one request's cancellation must not truncate what the others see)", 1)
	fn := e.Func("pkg/storage/storagewrappers/sharediterator", "sharedIterator.fetchMore")
	n, ok := 0, true
	var detail string
	eachInstr(fn, true, func(in ssa.Instruction) {
		c, isCall := in.(ssa.CallInstruction)
		if !isCall {
			return
		}
		g := staticCallee(c)
		if g == nil || g.Name() != "Read" || len(c.Common().Args) < 2 {
			return
		}
		n++
		d := describe_(c.Common().Args[1])
		detail = d
		if d != "context.Background()" {
			ok = false
		}
	})
	if n == 0 {
		blind("shared-fill-context: no Read call in fetchMore")
	}
	r.Check(ok, fname(fn), e.pos(fn.Pos()), "Read(context.Background(), …)", "the shared buffer is filled under "+detail+": when that request is cancelled mid-fetch the shared state keeps a prefix plus context.Canceled, and every other consumer sees a truncated sequence")
	_ = token.ADD
}

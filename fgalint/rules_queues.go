package main

// C22: protocol (typestate) rules of the lock-free accumulator that are visible in the code's shape.

import (
	"fmt"
	"strings"

	"golang.org/x/tools/go/ssa"
)

// ruleAccumulatorClosedSticky: head == nil is the accumulator's "closed" state.  Once nil it must stay
// nil, so outside the constructor the only writes to head are (a) a Swap/Store of nil (Close) and
// (b) CompareAndSwap(old, new) with old proven non-nil.  A blind Swap/Store of a node re-opens a closed queue
// and loses the item (it is linked behind a node the consumer never reaches).
func ruleAccumulatorClosedSticky(e *Engine, r *Reporter) {
	r.Rule("accumulator-closed-sticky", "outside NewAccumulator the mpsc accumulator's head pointer is written only by Swap/Store(nil) or by CompareAndSwap whose expected value is proven non-nil: a closed (nil) head is never replaced, so sends after close fail and no item is linked behind the end sentinel", 2)
	seen := map[string]bool{}
	n := 0
	for _, fn := range e.Fns {
		if short(pkgOf(fn)) != "internal/containers/mpsc" {
			continue
		}
		cf := canon(fn)
		if cf.Name() == "NewAccumulator" {
			continue
		}
		ord := 0
		eachInstr(fn, false, func(in ssa.Instruction) {
			c, ok := in.(ssa.CallInstruction)
			if !ok {
				return
			}
			cc := c.Common()
			g := cc.StaticCallee()
			if g == nil || len(cc.Args) == 0 {
				return
			}
			fa, ok := cc.Args[0].(*ssa.FieldAddr)
			if !ok || fieldName(fa.X.Type(), fa.Field) != "head" || typeBaseName(derefType(fa.X.Type())) != "Accumulator" {
				return
			}
			name := g.Name()
			if name != "Store" && name != "Swap" && name != "CompareAndSwap" {
				return
			}
			key := fmt.Sprintf("%s | head.%s #%d", fname(cf), name, ord)
			ord++
			if seen[key] {
				return
			}
			seen[key] = true
			n++
			switch name {
			case "Store", "Swap":
				r.Check(isNilConst(cc.Args[1]), key, e.instrPos(in), "writes nil (close)", "head is overwritten unconditionally with a node: if the accumulator was closed (head == nil) it is re-opened and the item is linked behind the end sentinel, so a send after close succeeds and the item is lost")
			case "CompareAndSwap":
				old := cc.Args[1]
				ok := e.guardedAnyLevel(in, cutSpec{edge: func(f Fact) bool {
					return f.Kind == "nil" && !f.Positive && unwrap(f.X) == unwrap(old)
				}})
				r.Check(ok, key, e.instrPos(in), "expected value proven non-nil", "CompareAndSwap may run with a nil expected value: a closed accumulator can be re-opened")
			}
		})
	}
	if n == 0 {
		blind("accumulator-closed-sticky: no write to Accumulator.head found")
	}
}

// ---- C15: the memory backend's horizon cut -------------------------------------------------

// blockReaches: can control flow from block a reach block b (a != b counts paths of length >= 1)?
func blockReaches(a, b *ssa.BasicBlock) bool {
	seen := map[*ssa.BasicBlock]bool{}
	work := []*ssa.BasicBlock{a}
	for len(work) > 0 {
		x := work[len(work)-1]
		work = work[:len(work)-1]
		if x == b {
			return true
		}
		if seen[x] {
			continue
		}
		seen[x] = true
		work = append(work, x.Succs...)
	}
	return false
}

// accessRoot strips loads, field selections and getter calls (receiver position) from v.
func accessRoot(v ssa.Value) ssa.Value {
	for i := 0; i < 32; i++ {
		switch x := unwrap(v).(type) {
		case *ssa.UnOp:
			v = x.X
		case *ssa.FieldAddr:
			v = x.X
		case *ssa.Field:
			v = x.X
		case *ssa.Call:
			if len(x.Call.Args) == 0 || x.Call.IsInvoke() {
				if x.Call.IsInvoke() {
					v = x.Call.Value
					continue
				}
				return v
			}
			v = x.Call.Args[0]
		default:
			return v
		}
	}
	return v
}

func ruleMemoryHorizonCut(e *Engine, r *Reporter) {
	r.Rule("memory-horizon-cut-on-ascending-log", "the memory backend's ReadChanges withholds changes newer than the horizon by leaving the scan at the first too-new entry; that is only right on the append-ordered log, so the scanned slice is the store's raw changes list (any re-ordering for descending reads happens after the scan)", 1)
	fn := e.Func("pkg/storage/memory", "MemoryBackend.ReadChanges")
	var after *ssa.Call
	eachInstr(fn, false, func(in ssa.Instruction) {
		if c, ok := in.(*ssa.Call); ok {
			if g := c.Call.StaticCallee(); g != nil && g.Name() == "After" && g.Pkg != nil && g.Pkg.Pkg.Path() == "time" {
				after = c
			}
		}
	})
	if after == nil {
		blind("memory-horizon: no time.After comparison in memory.ReadChanges")
	}
	// the branch on After
	var ifi *ssa.If
	for _, ref := range *after.Referrers() {
		if x, ok := ref.(*ssa.If); ok {
			ifi = x
		}
	}
	if ifi == nil {
		blind("memory-horizon: After result is not branched on directly")
	}
	leaves := !blockReaches(ifi.Block().Succs[0], ifi.Block())
	root := accessRoot(after.Call.Args[0])
	desc := describe_(root)
	ok := true
	why := "too-new entries are skipped individually (order-independent)"
	if leaves {
		ia, isIdx := root.(*ssa.IndexAddr)
		ok = false
		if isIdx {
			if lk, isLk := unwrap(ia.X).(*ssa.Lookup); isLk {
				if u, isLoad := lk.X.(*ssa.UnOp); isLoad {
					if fa, isFA := u.X.(*ssa.FieldAddr); isFA && fieldName(fa.X.Type(), fa.Field) == "changes" {
						ok = true
					}
				}
			}
		}
		why = "the scan stops at the first too-new entry and ranges over " + desc
	}
	r.Check(ok, fname(fn)+" | horizon cut", e.instrPos(after), why, "the scan stops at the first entry newer than the horizon but ranges over "+desc+", which is not the append-ordered log: on a re-ordered slice the cut drops every older change behind the first new one")
	// descending = reverse of ascending: Reverse is applied under SortDesc to the scan's result
	nrev := 0
	eachInstr(fn, false, func(in ssa.Instruction) {
		if isCallNamed(in, "Reverse") {
			nrev++
			g := e.guardedAnyLevel(in, cutSpec{edge: func(f Fact) bool {
				return f.Positive && (f.Kind == "bool" || f.Kind == "eq") && strings.Contains(describe_(f.X), "SortDesc")
			}})
			r.Check(g, fname(fn)+" | Reverse only under SortDesc", e.instrPos(in), "guarded by options.SortDesc", "the result is reversed on a path where SortDesc was not requested")
		}
	})
	_ = nrev
}

// ---- C28: codec symmetry of the SQL continuation token ------------------------------------------

// ruleTokenCodecSymmetric: Serialize and Deserialize of a ContinuationTokenSerializer agree on the codec: if
// one side is encoding/json on a type T, the other is too, on the same T.  (A hand-written encoder on one
// side only is where escaping differences make a page token undecodable.)
func ruleTokenCodecSymmetric(e *Engine, r *Reporter) {
	r.Rule("token-codec-symmetric", "every continuation-token serializer encodes and decodes with the same codec on the same type (json.Marshal of T on one side, json.Unmarshal into T on the other)", 1)
	n := 0
	for _, fn := range e.Fns {
		if fn.Name() != "Serialize" || fn.Signature.Recv() == nil || isTestSupport(pkgOf(fn)) {
			continue
		}
		recv := typeBaseName(fn.Signature.Recv().Type())
		des := e.FuncOpt(short(pkgOf(fn)), recv+".Deserialize")
		if des == nil {
			continue
		}
		codecOf := func(f *ssa.Function, name string, argIdx int) string {
			out := ""
			eachInstr(f, false, func(in ssa.Instruction) {
				c, ok := in.(*ssa.Call)
				if !ok {
					return
				}
				g := c.Call.StaticCallee()
				if g == nil || g.Pkg == nil || g.Pkg.Pkg.Path() != "encoding/json" || g.Name() != name {
					return
				}
				a := unwrap(c.Call.Args[argIdx])
				if mi, ok := a.(*ssa.MakeInterface); ok {
					a = mi.X
				}
				out = "json:" + typeBaseName(derefType(a.Type()))
			})
			return out
		}
		enc := codecOf(fn, "Marshal", 0)
		dec := codecOf(des, "Unmarshal", 1)
		if enc == "" && dec == "" {
			continue // not a JSON codec on either side: nothing to compare
		}
		n++
		r.Check(enc == dec, fname(fn)+" | codec matches Deserialize", e.pos(fn.Pos()), "both sides "+enc, fmt.Sprintf("Serialize uses %q but Deserialize uses %q: tokens whose fields need escaping (or whose field names differ) no longer round-trip, so a page token handed out is rejected or misread on the next page", enc, dec))
	}
	if n == 0 {
		blind("token-codec-symmetric: no JSON continuation token serializer found")
	}
}

// ---- C26: every tuple of a write contributes its module --------------------------------------------

func ruleEveryTupleContributesModule(e *Engine, r *Reporter) {
	r.Rule("every-tuple-contributes-module", "extractModulesFromTuples resolves the module of every tuple of the request: no path around the loop returns to its header without having called GetModuleForObjectTypeRelation and recorded the result in the module set", 2)
	seen := map[string]bool{}
	n := 0
	for _, fn := range e.Fns {
		if canon(fn).Name() != "extractModulesFromTuples" || short(pkgOf(fn)) != "internal/authz" || len(fn.Blocks) == 0 {
			continue
		}
		var resolve, record ssa.Instruction
		eachInstr(fn, false, func(in ssa.Instruction) {
			if isCallNamed(in, "GetModuleForObjectTypeRelation") {
				resolve = in
			}
			if mu, ok := in.(*ssa.MapUpdate); ok {
				record = mu
			}
		})
		if resolve == nil || record == nil {
			blind("every-tuple-contributes-module: resolve call or module-set update not found in %s", fname(fn))
		}
		h := loopHeader(record.Block())
		if h == nil {
			blind("every-tuple-contributes-module: module-set update is not in a loop")
		}
		hdrIf := h.Instrs[len(h.Instrs)-1]
		for _, c := range []struct {
			what string
			at   ssa.Instruction
		}{{"resolves the tuple's module", resolve}, {"records the module", record}} {
			key := fname(canon(fn)) + " | each iteration " + c.what
			if seen[key] {
				continue
			}
			seen[key] = true
			n++
			skip, _ := reachable(fn, hdrIf, func(in ssa.Instruction) bool { return in == h.Instrs[0] }, cutSpec{instr: func(in ssa.Instruction) bool { return in == c.at }})
			r.Check(!skip, key, e.instrPos(c.at), "no path back to the loop header avoids it", "an iteration can continue to the next tuple without it: the module (and the unknown-relation error) of that tuple is never considered, so a write touching a module the caller has no grant on passes module-level authorization")
		}
	}
	if n == 0 {
		blind("every-tuple-contributes-module: extractModulesFromTuples not found")
	}
}

// ruleListStoresIDsPredicate: the id filter that confines ListStores to the caller's stores is a predicate
// on exactly options.IDs, applied whenever options.IDs is non-empty — in every SQL backend.
func ruleListStoresIDsPredicate(e *Engine, r *Reporter) {
	r.Rule("liststores-ids-predicate", "in every SQL backend ListStores adds WHERE id IN (options.IDs) whenever options.IDs is non-empty, with options.IDs itself as the operand (not a derived, possibly emptied copy)", 3)
	ot := e.Named("pkg/storage", "ListStoresOptions")
	for _, be := range sqlBackends {
		fn := e.Func("pkg/storage/"+be, "Datastore.ListStores")
		arg, _ := paramOfType(fn, ot)
		if arg == "" {
			blind("liststores-ids-predicate: %s has no ListStoresOptions parameter", fname(fn))
		}
		found, detail := false, "no predicate on id with operand "+arg+".IDs"
		for _, st := range e.sqlStmtsDeep(fn, 1) {
			if st.Verb != "SELECT" || table(st) != "store" {
				continue
			}
			for _, w := range st.Wheres {
				inner := strings.TrimSuffix(strings.TrimPrefix(w.Text, "And["), "]")
				for _, el := range strings.Split(inner, "; ") {
					if !strings.HasPrefix(el, "Eq{id=") {
						continue
					}
					if el == "Eq{id="+arg+".IDs} if nonempty("+arg+".IDs)" {
						found = true
						detail = el
					} else if !found {
						detail = "id predicate is `" + el + "` instead of `Eq{id=" + arg + ".IDs} if nonempty(" + arg + ".IDs)`"
					}
				}
			}
		}
		r.Check(found, be+".ListStores | id filter", e.pos(fn.Pos()), detail, detail+": a caller confined to a set of stores can be shown stores outside it")
	}
}

package main

// C22: protocol (typestate) rules of the lock-free accumulator that are visible in the code's shape.

import (
	"fmt"
	"go/ast"
	"go/token"
	"go/types"
	"sort"
	"strings"

	"golang.org/x/tools/go/ssa"
)

// ruleAccumulatorClosedSticky: head == nil is the accumulator's "closed" state.  Once nil it must stay
// nil, so outside the constructor the only writes to head are (a) a Swap/Store of nil (Close) and
// (b) CompareAndSwap(old, new) with old proven non-nil.  A blind Swap/Store of a node re-opens a closed queue
// and loses the item (it is linked behind a node the consumer never reaches).
func ruleAccumulatorClosedSticky(e *Engine, r *Reporter) {
	r.Rule("accumulator-closed-sticky", "outside NewAccumulator the mpsc accumulator's head pointer is written only by Swap/Store(nil) or by CompareAndSwap whose expected value is proven non-nil: a closed (nil) head is never replaced, so sends after close fail and no item is linked behind the end sentinel", 2)
	seen := map[string]bool{}
	n := 0
	for _, fn := range e.Fns {
		if short(pkgOf(fn)) != "internal/containers/mpsc" {
			continue
		}
		cf := canon(fn)
		if cf.Name() == "NewAccumulator" {
			continue
		}
		ord := 0
		eachInstr(fn, false, func(in ssa.Instruction) {
			c, ok := in.(ssa.CallInstruction)
			if !ok {
				return
			}
			cc := c.Common()
			g := cc.StaticCallee()
			if g == nil || len(cc.Args) == 0 {
				return
			}
			fa, ok := cc.Args[0].(*ssa.FieldAddr)
			if !ok || fieldName(fa.X.Type(), fa.Field) != "head" || typeBaseName(derefType(fa.X.Type())) != "Accumulator" {
				return
			}
			name := g.Name()
			if name != "Store" && name != "Swap" && name != "CompareAndSwap" {
				return
			}
			key := fmt.Sprintf("%s | head.%s #%d", fname(cf), name, ord)
			ord++
			if seen[key] {
				return
			}
			seen[key] = true
			n++
			switch name {
			case "Store", "Swap":
				r.Check(isNilConst(cc.Args[1]), key, e.instrPos(in), "writes nil (close)", "head is overwritten unconditionally with a node: if the accumulator was closed (head == nil) it is re-opened and the item is linked behind the end sentinel, so a send after close succeeds and the item is lost")
			case "CompareAndSwap":
				old := cc.Args[1]
				ok := e.guardedAnyLevel(in, cutSpec{edge: func(f Fact) bool {
					return f.Kind == "nil" && !f.Positive && unwrap(f.X) == unwrap(old)
				}})
				r.Check(ok, key, e.instrPos(in), "expected value proven non-nil", "CompareAndSwap may run with a nil expected value: a closed accumulator can be re-opened")
			}
		})
	}
	if n == 0 {
		blind("accumulator-closed-sticky: no write to Accumulator.head found")
	}
}

// ---- C15: the memory backend's horizon cut -------------------------------------------------

// blockReaches: can control flow from block a reach block b (a != b counts paths of length >= 1)?
func blockReaches(a, b *ssa.BasicBlock) bool {
	seen := map[*ssa.BasicBlock]bool{}
	work := []*ssa.BasicBlock{a}
	for len(work) > 0 {
		x := work[len(work)-1]
		work = work[:len(work)-1]
		if x == b {
			return true
		}
		if seen[x] {
			continue
		}
		seen[x] = true
		work = append(work, x.Succs...)
	}
	return false
}

// accessRoot strips loads, field selections and getter calls (receiver position) from v.
func accessRoot(v ssa.Value) ssa.Value {
	for i := 0; i < 32; i++ {
		switch x := unwrap(v).(type) {
		case *ssa.UnOp:
			v = x.X
		case *ssa.FieldAddr:
			v = x.X
		case *ssa.Field:
			v = x.X
		case *ssa.Call:
			if len(x.Call.Args) == 0 || x.Call.IsInvoke() {
				if x.Call.IsInvoke() {
					v = x.Call.Value
					continue
				}
				return v
			}
			v = x.Call.Args[0]
		default:
			return v
		}
	}
	return v
}

func ruleMemoryHorizonCut(e *Engine, r *Reporter) {
	r.Rule("memory-horizon-cut-on-ascending-log", "the memory backend's ReadChanges withholds changes newer than the horizon by leaving the scan at the first too-new entry; that is only right on the append-ordered log, so the scanned slice is the store's raw changes list (any re-ordering for descending reads happens after the scan)", 1)
	fn := e.Func("pkg/storage/memory", "MemoryBackend.ReadChanges")
	var after *ssa.Call
	eachInstr(fn, false, func(in ssa.Instruction) {
		if c, ok := in.(*ssa.Call); ok {
			if g := c.Call.StaticCallee(); g != nil && g.Name() == "After" && g.Pkg != nil && g.Pkg.Pkg.Path() == "time" {
				after = c
			}
		}
	})
	if after == nil {
		blind("memory-horizon: no time.After comparison in memory.ReadChanges")
	}
	// the branch on After
	var ifi *ssa.If
	for _, ref := range *after.Referrers() {
		if x, ok := ref.(*ssa.If); ok {
			ifi = x
		}
	}
	if ifi == nil {
		blind("memory-horizon: After result is not branched on directly")
	}
	leaves := !blockReaches(ifi.Block().Succs[0], ifi.Block())
	root := accessRoot(after.Call.Args[0])
	desc := describe_(root)
	ok := true
	why := "too-new entries are skipped individually (order-independent)"
	if leaves {
		ia, isIdx := root.(*ssa.IndexAddr)
		ok = false
		if isIdx {
			if lk, isLk := unwrap(ia.X).(*ssa.Lookup); isLk {
				if u, isLoad := lk.X.(*ssa.UnOp); isLoad {
					if fa, isFA := u.X.(*ssa.FieldAddr); isFA && fieldName(fa.X.Type(), fa.Field) == "changes" {
						ok = true
					}
				}
			}
		}
		why = "the scan stops at the first too-new entry and ranges over " + desc
	}
	r.Check(ok, fname(fn)+" | horizon cut", e.instrPos(after), why, "the scan stops at the first entry newer than the horizon but ranges over "+desc+", which is not the append-ordered log: on a re-ordered slice the cut drops every older change behind the first new one")
	// descending = reverse of ascending: Reverse is applied under SortDesc to the scan's result
	nrev := 0
	eachInstr(fn, false, func(in ssa.Instruction) {
		if isCallNamed(in, "Reverse") {
			nrev++
			g := e.guardedAnyLevel(in, cutSpec{edge: func(f Fact) bool {
				return f.Positive && (f.Kind == "bool" || f.Kind == "eq") && strings.Contains(describe_(f.X), "SortDesc")
			}})
			r.Check(g, fname(fn)+" | Reverse only under SortDesc", e.instrPos(in), "guarded by options.SortDesc", "the result is reversed on a path where SortDesc was not requested")
		}
	})
	_ = nrev
}

// ---- C28: codec symmetry of the SQL continuation token ------------------------------------------

// ruleTokenCodecSymmetric: Serialize and Deserialize of a ContinuationTokenSerializer agree on the codec: if
// one side is encoding/json on a type T, the other is too, on the same T.  (A hand-written encoder on one
// side only is where escaping differences make a page token undecodable.)
func ruleTokenCodecSymmetric(e *Engine, r *Reporter) {
	r.Rule("token-codec-symmetric", "every continuation-token serializer encodes and decodes with the same codec on the same type (json.Marshal of T on one side, json.Unmarshal into T on the other)", 1)
	n := 0
	for _, fn := range e.Fns {
		if fn.Name() != "Serialize" || fn.Signature.Recv() == nil || isTestSupport(pkgOf(fn)) {
			continue
		}
		recv := typeBaseName(fn.Signature.Recv().Type())
		des := e.FuncOpt(short(pkgOf(fn)), recv+".Deserialize")
		if des == nil {
			continue
		}
		codecOf := func(f *ssa.Function, name string, argIdx int) string {
			out := ""
			eachInstr(f, false, func(in ssa.Instruction) {
				c, ok := in.(*ssa.Call)
				if !ok {
					return
				}
				g := c.Call.StaticCallee()
				if g == nil || g.Pkg == nil || g.Pkg.Pkg.Path() != "encoding/json" || g.Name() != name {
					return
				}
				a := unwrap(c.Call.Args[argIdx])
				if mi, ok := a.(*ssa.MakeInterface); ok {
					a = mi.X
				}
				out = "json:" + typeBaseName(derefType(a.Type()))
			})
			return out
		}
		enc := codecOf(fn, "Marshal", 0)
		dec := codecOf(des, "Unmarshal", 1)
		if enc == "" && dec == "" {
			continue // not a JSON codec on either side: nothing to compare
		}
		n++
		r.Check(enc == dec, fname(fn)+" | codec matches Deserialize", e.pos(fn.Pos()), "both sides "+enc, fmt.Sprintf("Serialize uses %q but Deserialize uses %q: tokens whose fields need escaping (or whose field names differ) no longer round-trip, so a page token handed out is rejected or misread on the next page", enc, dec))
	}
	if n == 0 {
		blind("token-codec-symmetric: no JSON continuation token serializer found")
	}
}

// ---- C26: every tuple of a write contributes its module --------------------------------------------

func ruleEveryTupleContributesModule(e *Engine, r *Reporter) {
	r.Rule("every-tuple-contributes-module", "extractModulesFromTuples resolves the module of every tuple of the request: no path around the loop returns to its header without having called GetModuleForObjectTypeRelation and recorded the result in the module set", 2)
	seen := map[string]bool{}
	n := 0
	for _, fn := range e.Fns {
		if canon(fn).Name() != "extractModulesFromTuples" || short(pkgOf(fn)) != "internal/authz" || len(fn.Blocks) == 0 {
			continue
		}
		var resolve, record ssa.Instruction
		eachInstr(fn, false, func(in ssa.Instruction) {
			if isCallNamed(in, "GetModuleForObjectTypeRelation") {
				resolve = in
			}
			if mu, ok := in.(*ssa.MapUpdate); ok {
				record = mu
			}
		})
		if resolve == nil || record == nil {
			blind("every-tuple-contributes-module: resolve call or module-set update not found in %s", fname(fn))
		}
		h := loopHeader(record.Block())
		if h == nil {
			blind("every-tuple-contributes-module: module-set update is not in a loop")
		}
		hdrIf := h.Instrs[len(h.Instrs)-1]
		for _, c := range []struct {
			what string
			at   ssa.Instruction
		}{{"resolves the tuple's module", resolve}, {"records the module", record}} {
			key := fname(canon(fn)) + " | each iteration " + c.what
			if seen[key] {
				continue
			}
			seen[key] = true
			n++
			skip, _ := reachable(fn, hdrIf, func(in ssa.Instruction) bool { return in == h.Instrs[0] }, cutSpec{instr: func(in ssa.Instruction) bool { return in == c.at }})
			r.Check(!skip, key, e.instrPos(c.at), "no path back to the loop header avoids it", "an iteration can continue to the next tuple without it: the module (and the unknown-relation error) of that tuple is never considered, so a write touching a module the caller has no grant on passes module-level authorization")
		}
	}
	if n == 0 {
		blind("every-tuple-contributes-module: extractModulesFromTuples not found")
	}
}

// ruleListStoresIDsPredicate: the id filter that confines ListStores to the caller's stores is a predicate
// on exactly options.IDs, applied whenever options.IDs is non-empty — in every SQL backend.
func ruleListStoresIDsPredicate(e *Engine, r *Reporter) {
	r.Rule("liststores-ids-predicate", "in every SQL backend ListStores adds WHERE id IN (options.IDs) whenever options.IDs is non-empty, with options.IDs itself as the operand (not a derived, possibly emptied copy)", 3)
	ot := e.Named("pkg/storage", "ListStoresOptions")
	for _, be := range sqlBackends {
		fn := e.Func("pkg/storage/"+be, "Datastore.ListStores")
		arg, _ := paramOfType(fn, ot)
		if arg == "" {
			blind("liststores-ids-predicate: %s has no ListStoresOptions parameter", fname(fn))
		}
		found, detail := false, "no predicate on id with operand "+arg+".IDs"
		for _, st := range e.sqlStmtsDeep(fn, 1) {
			if st.Verb != "SELECT" || table(st) != "store" {
				continue
			}
			for _, w := range st.Wheres {
				inner := strings.TrimSuffix(strings.TrimPrefix(w.Text, "And["), "]")
				for _, el := range strings.Split(inner, "; ") {
					if !strings.HasPrefix(el, "Eq{id=") {
						continue
					}
					if el == "Eq{id="+arg+".IDs} if nonempty("+arg+".IDs)" {
						found = true
						detail = el
					} else if !found {
						detail = "id predicate is `" + el + "` instead of `Eq{id=" + arg + ".IDs} if nonempty(" + arg + ".IDs)`"
					}
				}
			}
		}
		r.Check(found, be+".ListStores | id filter", e.pos(fn.Pos()), detail, detail+": a caller confined to a set of stores can be shown stores outside it")
	}
}

// ---- C31: a successful WriteAssertions always persisted; copies of assertions are complete ---------------

func containsExec(fn *ssa.Function, depth int) bool {
	found := false
	eachInstr(fn, true, func(in ssa.Instruction) {
		if c, ok := in.(ssa.CallInstruction); ok {
			if o := calleeObj(c); o != nil && (o.Name() == "ExecContext" || o.Name() == "Exec") {
				found = true
			}
		}
	})
	return found
}

func ruleAssertionsWriteAlwaysPersists(e *Engine, r *Reporter) {
	r.Rule("assertions-write-always-persists", "in every backend a WriteAssertions call that reports success has replaced the stored list: no nil-error return is reachable without passing the upsert (SQL) or the map update (memory) — an empty list included", 4)
	for _, be := range append([]string{"memory"}, sqlBackends...) {
		recv := "Datastore."
		if be == "memory" {
			recv = "MemoryBackend."
		}
		fn := e.Func("pkg/storage/"+be, recv+"WriteAssertions")
		persist := func(in ssa.Instruction) bool {
			if _, ok := in.(*ssa.MapUpdate); ok {
				return true
			}
			c, ok := in.(ssa.CallInstruction)
			if !ok {
				return false
			}
			if o := calleeObj(c); o != nil && (o.Name() == "ExecContext" || o.Name() == "Exec") {
				return true
			}
			for _, a := range c.Common().Args {
				if mc, ok := a.(*ssa.MakeClosure); ok {
					if f, ok := mc.Fn.(*ssa.Function); ok && containsExec(f, 1) {
						return true
					}
				}
			}
			if g := staticCallee(c); g != nil && short(pkgOf(g)) != "" && strings.HasPrefix(short(pkgOf(g)), "pkg/storage") && len(g.Blocks) > 0 && g != fn && containsExec(g, 1) {
				return true
			}
			return false
		}
		has := false
		eachInstr(fn, false, func(in ssa.Instruction) {
			if persist(in) {
				has = true
			}
		})
		if !has {
			blind("assertions-write: no persisting action found in %s", fname(fn))
		}
		bad := ""
		for _, rs := range returnSites(fn) {
			if len(rs.Results) != 1 || !isNilConst(rs.Results[0]) {
				continue
			}
			if reach, _ := reachable(fn, nil, func(in ssa.Instruction) bool { return in == rs.At }, cutSpec{instr: persist}); reach {
				bad = e.instrPos(rs.At)
			}
		}
		r.Check(bad == "", be+".WriteAssertions | success implies persisted", e.pos(fn.Pos()), "every `return nil` lies behind the upsert / map update", "the success return at "+bad+" is reachable without persisting: the previously written list stays readable although the write was acknowledged")
	}
}

// ruleProtoCopyComplete: a function in the storage layer that rebuilds a protobuf message of type T from
// another T field by field (a "defensive copy") must carry every field.
func ruleProtoCopyComplete(e *Engine, r *Reporter, pkgPrefix string, floorNote string) {
	r.Rule("proto-copy-complete", "where "+pkgPrefix+" code rebuilds a protobuf message T from the getters/fields of another T (field-by-field copy), every exported field of T is set — a forgotten field silently drops data", 0)
	for _, fn := range e.Fns {
		if !strings.HasPrefix(short(pkgOf(fn)), pkgPrefix) || isTestSupport(pkgOf(fn)) {
			continue
		}
		ord := 0
		eachInstr(fn, false, func(in ssa.Instruction) {
			al, ok := in.(*ssa.Alloc)
			if !ok {
				return
			}
			nt, ok := types.Unalias(derefType(al.Type())).(*types.Named)
			if !ok || nt.Obj().Pkg() == nil || !strings.Contains(nt.Obj().Pkg().Path(), "openfga/api/proto") {
				return
			}
			st, ok := nt.Underlying().(*types.Struct)
			if !ok {
				return
			}
			set := map[string]bool{}
			fromSame := 0
			for _, ref := range *al.Referrers() {
				fa, ok := ref.(*ssa.FieldAddr)
				if !ok {
					continue
				}
				for _, rr := range *fa.Referrers() {
					s, ok := rr.(*ssa.Store)
					if !ok || s.Addr != ssa.Value(fa) {
						continue
					}
					set[fieldName(al.Type(), fa.Field)] = true
					// does the stored value come from a getter/field of another value of the same type T?
					if readsFromSameType(s.Val, nt) {
						fromSame++
					}
				}
			}
			if fromSame < 2 || fromSame != len(set) {
				return // not a pure copy of another T (some fields are computed afresh: a construction, not a copy)
			}
			var missing []string
			for i := 0; i < st.NumFields(); i++ {
				f := st.Field(i)
				if f.Exported() && !set[f.Name()] {
					missing = append(missing, f.Name())
				}
			}
			key := fmt.Sprintf("%s | copy of %s #%d", fname(fn), nt.Obj().Name(), ord)
			ord++
			r.Check(len(missing) == 0, key, e.instrPos(in), "all exported fields set", fmt.Sprintf("field-by-field copy of %s omits %v: the stored/returned message is not the one given", nt.Obj().Name(), missing))
		})
	}
}

// ---- C30 (and any command): a command object that mutates itself while executing is per-request -------------

func ruleMutatingCommandPerRequest(e *Engine, r *Reporter) {
	r.Rule("mutating-command-per-request", "a command whose Execute method writes its own fields (e.g. wraps its datastore with the request's contextual tuples) is constructed in the handler that executes it: the receiver of every such call comes from a constructor call in the same function, never from state shared between requests", 1)
	n := 0
	for _, fn := range e.Fns {
		if !strings.HasPrefix(short(pkgOf(fn)), "pkg/server/commands") || fn.Signature.Recv() == nil || fn.Parent() != nil || !strings.HasPrefix(fn.Name(), "Execute") || len(fn.Params) == 0 {
			continue
		}
		recv := fn.Params[0]
		var wrote []string
		eachInstr(fn, false, func(in ssa.Instruction) {
			st, ok := in.(*ssa.Store)
			if !ok {
				return
			}
			if fa, ok := st.Addr.(*ssa.FieldAddr); ok && fa.X == ssa.Value(recv) {
				wrote = append(wrote, fieldName(fa.X.Type(), fa.Field))
			}
		})
		if len(wrote) == 0 {
			continue
		}
		for i, cs := range e.allCallSites(fn) {
			caller := cs.Parent()
			if isTestSupport(pkgOf(caller)) {
				continue
			}
			args := cs.Common().Args
			if cs.Common().IsInvoke() || len(args) == 0 {
				continue
			}
			n++
			fresh := derivesFrom(args[0], func(v ssa.Value) bool {
				c, ok := v.(*ssa.Call)
				if !ok {
					return false
				}
				g := staticCallee(c)
				return g != nil && strings.HasPrefix(short(pkgOf(g)), "pkg/server/commands") && strings.HasPrefix(g.Name(), "New")
			})
			shared := derivesFrom(args[0], func(v ssa.Value) bool {
				_, isFA := v.(*ssa.FieldAddr)
				_, isGl := v.(*ssa.Global)
				return isFA || isGl
			})
			r.Check(fresh && !shared, fmt.Sprintf("%s | receiver of %s #%d", fname(topLevel(caller)), shortFuncName(fn), i), e.instrPos(cs), "constructed in this handler: "+describe_(args[0]), fmt.Sprintf("%s writes its own fields %v but is executed on %s, which outlives the request: state of one request (its contextual tuples) leaks into the next", shortFuncName(fn), uniq(wrote), describe_(args[0])))
		}
	}
	if n == 0 {
		blind("mutating-command-per-request: no self-mutating Execute method with a call site found")
	}
}


// readsFromSameType: v is obtained by a getter / field selection (receiver position) from a value of type *T or T.
func readsFromSameType(v ssa.Value, nt *types.Named) bool {
	for i := 0; i < 16; i++ {
		var next ssa.Value
		switch x := unwrap(v).(type) {
		case *ssa.UnOp:
			next = x.X
		case *ssa.FieldAddr:
			next = x.X
		case *ssa.Field:
			next = x.X
		case *ssa.Call:
			if x.Call.IsInvoke() || len(x.Call.Args) == 0 {
				return false
			}
			next = x.Call.Args[0]
		default:
			return false
		}
		if types.Identical(derefType(next.Type()), nt) {
			return true
		}
		v = next
	}
	return false
}

// ---- enum-keyed lookup tables (the table form of a total switch) ------------------------------------------

type enumTable struct {
	Pkg     string
	Pos     token.Pos
	Covered []string
	Missing []string
}

// enumKeyedMapLiterals finds map composite literals whose key type is the named enum type; for each, which of the
// enum's declared constants are keys.
func (e *Engine) enumKeyedMapLiterals(typeName string) []enumTable {
	var out []enumTable
	for _, p := range e.modulePackages(false) {
		for _, f := range p.Syntax {
			ast.Inspect(f, func(n ast.Node) bool {
				cl, ok := n.(*ast.CompositeLit)
				if !ok {
					return true
				}
				t := p.TypesInfo.TypeOf(cl)
				if t == nil {
					return true
				}
				mt, ok := t.Underlying().(*types.Map)
				if !ok {
					return true
				}
				named, ok := types.Unalias(mt.Key()).(*types.Named)
				if !ok || named.Obj().Name() != typeName {
					return true
				}
				keys := map[string]bool{}
				for _, el := range cl.Elts {
					if kv, ok := el.(*ast.KeyValueExpr); ok {
						if tv := p.TypesInfo.Types[kv.Key]; tv.Value != nil {
							keys[tv.Value.ExactString()] = true
						}
					}
				}
				tb := enumTable{Pkg: short(p.PkgPath), Pos: cl.Pos()}
				seen := map[string]bool{}
				for _, c := range enumConsts(named) {
					v := c.Val().ExactString()
					if seen[v] {
						continue
					}
					seen[v] = true
					if keys[v] {
						tb.Covered = append(tb.Covered, c.Name())
					} else {
						tb.Missing = append(tb.Missing, c.Name())
					}
				}
				sort.Strings(tb.Covered)
				sort.Strings(tb.Missing)
				out = append(out, tb)
				return true
			})
		}
	}
	return out
}

// carriesConsistency: a value of type t can tell a consistency preference: it has a GetConsistency method, or a
// field of the ConsistencyPreference type, or (to the given depth) a struct field that does.
func carriesConsistency(t types.Type, depth int) bool {
	t = derefType(t)
	for _, tt := range []types.Type{t, types.NewPointer(t)} {
		ms := types.NewMethodSet(tt)
		for i := 0; i < ms.Len(); i++ {
			if n := ms.At(i).Obj().Name(); n == "GetConsistency" {
				return true
			}
		}
	}
	st, ok := t.Underlying().(*types.Struct)
	if !ok {
		return false
	}
	for i := 0; i < st.NumFields(); i++ {
		ft := st.Field(i).Type()
		if isConsistencyType(ft) {
			return true
		}
		if depth > 0 {
			if _, isStruct := derefType(ft).Underlying().(*types.Struct); isStruct && carriesConsistency(ft, depth-1) {
				return true
			}
		}
	}
	return false
}

// hasConsistencySource: some parameter (or the receiver) of the declaration carries a consistency preference the
// function could inherit.  A function without one builds fresh requests (access-control queries, AuthZEN mapping).
func hasConsistencySource(info *types.Info, fd *ast.FuncDecl) bool {
	if fd == nil {
		return true
	}
	var fields []*ast.Field
	if fd.Recv != nil {
		fields = append(fields, fd.Recv.List...)
	}
	if fd.Type.Params != nil {
		fields = append(fields, fd.Type.Params.List...)
	}
	for _, f := range fields {
		if t := info.TypeOf(f.Type); t != nil {
			if isConsistencyType(t) || carriesConsistency(t, 2) {
				return true
			}
		}
	}
	return false
}

// ruleAuthzRequestsPinModel: every request the authorizer sends to the access-control store names the configured
// store and the configured model; a request without the model id is evaluated against whatever model is latest
// in the control store, so two gates (ListStores' filter and GetStore) can disagree.
func ruleAuthzRequestsPinModel(e *Engine, r *Reporter) {
	r.Rule("authz-requests-pin-model", "every Check/ListObjects request built in internal/authz carries the configured access-control store id and model id", 2)
	n := 0
	for _, fn := range e.Fns {
		if short(pkgOf(fn)) != "internal/authz" {
			continue
		}
		type lit struct{ store, model *ssa.Store }
		lits := map[ssa.Value]*lit{}
		var order []ssa.Value
		eachInstr(fn, false, func(in ssa.Instruction) {
			st, ok := in.(*ssa.Store)
			if !ok {
				return
			}
			fa, ok := st.Addr.(*ssa.FieldAddr)
			if !ok || !strings.HasSuffix(typeBaseName(derefType(fa.X.Type())), "Request") {
				return
			}
			l := lits[fa.X]
			if l == nil {
				l = &lit{}
				lits[fa.X] = l
				order = append(order, fa.X)
			}
			switch fieldName(fa.X.Type(), fa.Field) {
			case "StoreId":
				l.store = st
			case "AuthorizationModelId":
				l.model = st
			}
		})
		for i, x := range order {
			l := lits[x]
			if l.store == nil {
				continue
			}
			n++
			tn := typeBaseName(derefType(x.Type()))
			key := fmt.Sprintf("%s | %s #%d", fname(topLevel(fn)), tn, i)
			okStore := strings.HasSuffix(describe_(l.store.Val), "config.StoreID")
			okModel := l.model != nil && strings.HasSuffix(describe_(l.model.Val), "config.ModelID")
			r.Check(okStore && okModel, key, e.instrPos(l.store), "configured store and model", fmt.Sprintf("the access-control request does not pin the configured store and model (store from config: %v, model from config: %v): it is answered from the latest model of the control store, which may grant what the configured policy does not", okStore, okModel))
		}
	}
	if n == 0 {
		blind("authz-requests-pin-model: no request literal found in internal/authz")
	}
}

// ruleCancelIsNotEndOfData: storage.IterIsDoneOrCancelled folds "context cancelled" into "no more tuples".  The Check
// engines may use it — a cancelled Check's partial result is discarded with the request — but a command that
// *returns the collected set* (Expand, ListUsers, Read, ReadChanges, ListObjects' collectors) must see cancellation
// as an error, or a deadline firing mid-read yields a truncated answer reported as success.
func ruleCancelIsNotEndOfData(e *Engine, r *Reporter) {
	r.Rule("cancel-is-not-end-of-data", "no function under pkg/server calls storage.IterIsDoneOrCancelled: the API commands end their read loops on ErrIteratorDone only and surface cancellation as an error", 0)
	target := e.funcObjOpt("pkg/storage", "IterIsDoneOrCancelled")
	if target == nil {
		blind("cancel-is-not-end-of-data: storage.IterIsDoneOrCancelled not found")
	}
	for _, fn := range e.Fns {
		if !strings.HasPrefix(short(pkgOf(fn)), "pkg/server") || isTestSupport(pkgOf(fn)) {
			continue
		}
		ord := 0
		eachInstr(fn, false, func(in ssa.Instruction) {
			c, ok := in.(ssa.CallInstruction)
			if !ok || calleeObj(c) != target {
				return
			}
			r.Bad(fmt.Sprintf("%s | IterIsDoneOrCancelled #%d", fname(topLevel(fn)), ord), e.instrPos(in), "this command treats a cancelled context like the end of the data: when the request deadline fires while it reads, it returns the tuples collected so far as a complete, successful answer")
			ord++
		})
	}
	// the callers that exist today, by package (evidence of what the rule looked at)
	pk := map[string]int{}
	for _, cs := range e.CallSitesOf(target, false) {
		pk[short(pkgOf(cs.Parent()))]++
	}
	var ks []string
	for k, n := range pk {
		ks = append(ks, fmt.Sprintf("%s×%d", k, n))
	}
	sort.Strings(ks)
	r.OK("callers of storage.IterIsDoneOrCancelled", "", strings.Join(ks, " "))
}

// ruleDigestFedFramedBytes: outside the keys package a key digest is only ever fed the bytes of a keys.Builder, whose
// encoding is tagged and length-prefixed.  Raw strings written into the digest one after another are not framed:
// ["aa","bbcc"] and ["aabb","cc"] hash alike.
func ruleDigestFedFramedBytes(e *Engine, r *Reporter) {
	r.Rule("digest-fed-framed-bytes", "every Write/WriteString on a keys digest outside pkg/storage/cache/keys passes Builder.Bytes(): nothing unframed is mixed into a key's hash", 1)
	n := 0
	for _, fn := range e.Fns {
		if isTestSupport(pkgOf(fn)) || pkgOf(fn) == keysPkg {
			continue
		}
		ord := 0
		eachInstr(fn, false, func(in ssa.Instruction) {
			c, ok := in.(ssa.CallInstruction)
			if !ok {
				return
			}
			g := staticCallee(c)
			if g == nil || g.Signature.Recv() == nil || pkgOf(canon(g)) != keysPkg || typeBaseName(g.Signature.Recv().Type()) != "Digest" {
				return
			}
			if !strings.HasPrefix(g.Name(), "Write") || len(c.Common().Args) < 2 {
				return
			}
			n++
			d := describe_(c.Common().Args[1])
			framed := strings.HasSuffix(d, ".Bytes()")
			// a helper that receives the encoded bytes: framed when every call site passes Builder.Bytes()
			if prm, ok := unwrap(c.Common().Args[1]).(*ssa.Parameter); ok && !framed {
				idx := -1
				for i, q := range prm.Parent().Params {
					if q == prm {
						idx = i
					}
				}
				sites := e.allCallSites(prm.Parent())
				framed = len(sites) > 0 && idx >= 0
				for _, cs := range sites {
					if idx >= len(cs.Common().Args) || !strings.HasSuffix(describe_(cs.Common().Args[idx]), ".Bytes()") {
						framed = false
					}
				}
			}
			r.Check(framed, fmt.Sprintf("%s | digest.%s #%d", fname(topLevel(fn)), g.Name(), ord), e.instrPos(in), "fed "+d, "the digest is fed "+d+" directly: strings written back to back carry no length or tag, so different lists with the same concatenation share a key")
			ord++
		})
	}
	if n == 0 {
		blind("digest-fed-framed-bytes: no digest write found outside the keys package")
	}
}

// describeDeep: describe_(v), extended — when v is the result of a call to a module function with a body — by the
// descriptions of what that function can return (one level), so that a value moved behind a helper is still seen.
func describeDeep(v ssa.Value) string {
	d := describe_(v)
	var call *ssa.Call
	switch x := unwrap(v).(type) {
	case *ssa.Call:
		call = x
	case *ssa.Extract:
		call, _ = x.Tuple.(*ssa.Call)
	}
	if call == nil {
		return d
	}
	g := call.Call.StaticCallee()
	if g == nil || len(g.Blocks) == 0 || !inModule(pkgOf(g)) {
		return d
	}
	for _, rs := range returnSites(g) {
		for _, rv := range rs.Results {
			d += " <- " + describe_(rv)
		}
	}
	return d
}

package main

// Rules added after seeded changes showed gaps (DESIGN.md §6 lists which seed led to which rule).

import (
	"fmt"
	"go/constant"
	"go/token"
	"go/types"
	"strings"

	"golang.org/x/tools/go/ssa"
)

// ---- C16: singleflight keys carry the store ----------------------------------------------------

func ruleSingleflightKeys(e *Engine, r *Reporter) {
	r.Rule("singleflight-key-has-store", "every singleflight key used to coalesce datastore/model lookups contains the store id (or is a cache key, which C24 shows to contain it): a flight joined across stores hands one store's data to another", 4)
	for _, fn := range e.Fns {
		if isTestSupport(pkgOf(fn)) {
			continue
		}
		for _, b := range fn.Blocks {
			for _, in := range b.Instrs {
				c, ok := in.(ssa.CallInstruction)
				if !ok {
					continue
				}
				g := c.Common().StaticCallee()
				if g == nil || g.Pkg == nil || !strings.HasSuffix(g.Pkg.Pkg.Path(), "x/sync/singleflight") || (g.Name() != "Do" && g.Name() != "DoChan") {
					continue
				}
				key := c.Common().Args[1]
				top := topLevel(fn)
				ok2, why := e.keyStringHasStore(key, 0)
				r.Check(ok2, fmt.Sprintf("%s | singleflight key #%d", fname(top), ordinalIn(top, c)), e.instrPos(c), why, "the singleflight key "+describe_(key)+" does not contain the store id: concurrent lookups of different stores with the same remaining key share one result")
			}
		}
	}
}

// keyStringHasStore: some component of a string expression is a store source or a cache key.
func (e *Engine) keyStringHasStore(v ssa.Value, depth int) (bool, string) {
	v = unwrap(v)
	if depth > 6 {
		return false, ""
	}
	if e.isStoreSource(v, 5) {
		return true, "contains store id " + describe_(v)
	}
	switch x := v.(type) {
	case *ssa.BinOp:
		if x.Op == token.ADD {
			if ok, w := e.keyStringHasStore(x.X, depth+1); ok {
				return ok, w
			}
			return e.keyStringHasStore(x.Y, depth+1)
		}
	case *ssa.Call:
		// cacheKey.String() of a keys.Key
		if f := x.Call.StaticCallee(); f != nil && f.Name() == "String" && len(x.Call.Args) == 1 && typeBaseName(x.Call.Args[0].Type()) == "Key" {
			return true, "derived from a cache key (covered by key-has-store)"
		}
		if f := x.Call.StaticCallee(); f != nil && f.Pkg != nil && f.Pkg.Pkg.Path() == "fmt" && f.Name() == "Sprintf" {
			if elems, ok := sliceLitElems(x.Call.Args[1]); ok {
				for _, el := range elems {
					if ok, w := e.keyStringHasStore(el, depth+1); ok {
						return ok, w
					}
				}
			}
		}
	case *ssa.Phi:
		for _, ed := range x.Edges {
			if ok, _ := e.keyStringHasStore(ed, depth+1); !ok {
				return false, ""
			}
		}
		return len(x.Edges) > 0, "all alternatives contain the store id"
	}
	return false, ""
}

// ---- C16: deleted stores stay hidden -------------------------------------------------------------

// mustPredKeys: column keys that are constrained on EVERY path by a Where argument.
func mustPredKeys(v ssa.Value, seen map[ssa.Value]bool) map[string]bool {
	v = unwrap(v)
	out := map[string]bool{}
	if v == nil || seen[v] {
		return out
	}
	seen[v] = true
	defer delete(seen, v)
	if _, ok := sqMapKind(v.Type()); ok {
		for _, mm := range mapOrigins(v) {
			for _, ref := range *mm.Referrers() {
				if mu, ok := ref.(*ssa.MapUpdate); ok && mu.Map == mm {
					if mi, ok := mm.(ssa.Instruction); ok && mu.Block() == mi.Block() {
						out[stripQuotes(describe_(mu.Key))+"="+describe_(mu.Value)] = true
					}
				}
			}
		}
		return out
	}
	switch x := v.(type) {
	case *ssa.Phi:
		first := true
		for _, ed := range x.Edges {
			m := mustPredKeys(ed, seen)
			if first {
				out = m
				first = false
				continue
			}
			for k := range out {
				if !m[k] {
					delete(out, k)
				}
			}
		}
		return out
	case *ssa.Call:
		if b, ok := x.Call.Value.(*ssa.Builtin); ok && b.Name() == "append" {
			out = mustPredKeys(x.Call.Args[0], seen)
			if len(x.Call.Args) > 1 {
				if elems, ok := sliceLitElems(x.Call.Args[1]); ok {
					for _, el := range elems {
						for k := range mustPredKeys(el, seen) {
							out[k] = true
						}
					}
				}
			}
			return out
		}
	case *ssa.Slice:
		if elems, ok := sliceLitElems(x); ok {
			for _, el := range elems {
				for k := range mustPredKeys(el, seen) {
					out[k] = true
				}
			}
		}
		return out
	}
	return out
}

func ruleDeletedStoresHidden(e *Engine, r *Reporter) {
	r.Rule("deleted-stores-hidden", "every SELECT on the store table constrains deleted_at IS NULL on every path (a soft-deleted store is returned by neither GetStore nor ListStores), and DeleteStore only ever sets deleted_at", 6)
	for _, st := range e.allSQLStatements() {
		if table(st) != "store" {
			continue
		}
		key := fmt.Sprintf("%s %s store", fname(st.Top), st.Verb)
		switch st.Verb {
		case "SELECT":
			// statements inside the creating transaction read back the row just inserted
			if containsCall(st.Top, "BeginTx") {
				r.OK(key, e.pos(st.Root.Pos()), "read-back inside the creating transaction")
				continue
			}
			ok := false
			for _, w := range st.Wheres {
				if w.Call == nil || len(w.Call.Call.Args) < 2 {
					continue
				}
				var rootGuards []string
				if st.Root != nil {
					rootGuards = describeGuards(st.Root.Block())
				}
				if len(diffStrings(w.Guards, rootGuards)) > 0 {
					continue
				}
				if mustPredKeys(w.Call.Call.Args[1], map[ssa.Value]bool{})["deleted_at=nil"] {
					ok = true
				}
			}
			r.Check(ok, key, e.pos(st.Root.Pos()), "deleted_at IS NULL on every path", "a path builds this SELECT without deleted_at IS NULL: soft-deleted stores become visible again — "+oneLine(st.render()))
		case "UPDATE":
			good := len(st.Sets) == 1 && strings.Contains(st.Sets[0], "deleted_at")
			r.Check(good, key, e.pos(st.Root.Pos()), "sets deleted_at only", "store rows are updated in a way other than the soft delete: "+strings.Join(st.Sets, ","))
		case "DELETE":
			r.Bad(key, e.pos(st.Root.Pos()), "hard DELETE on the store table")
		default:
			r.OK(key, e.pos(st.Root.Pos()), st.Verb)
		}
	}
}

// ---- C15/C12: batch loops cover every item -----------------------------------------------------

func ruleBatchStride(e *Engine, r *Reporter) {
	r.Rule("batch-window-equals-stride", "in the write path's batching loops (for start := 0; start < n; start += K) the window end is start+K with the same K: a smaller window silently drops items (tuples without changelog rows, or the reverse), a larger one writes items twice", 5)
	for _, fn := range e.Fns {
		if !sqlPkgs[pkgOf(fn)] {
			continue
		}
		n := 0
		for _, b := range fn.Blocks {
			for _, in := range b.Instrs {
				ph, ok := in.(*ssa.Phi)
				if !ok || len(ph.Edges) != 2 {
					continue
				}
				// phi(0, phi + K)
				var stride int64 = -1
				for _, ed := range ph.Edges {
					if bo, ok := ed.(*ssa.BinOp); ok && bo.Op == token.ADD && bo.X == ssa.Value(ph) {
						if k, ok := constInt(bo.Y); ok {
							stride = k
						}
					}
				}
				if stride <= 1 {
					continue
				}
				// other uses: phi + K' (the window end)
				for _, ref := range *ph.Referrers() {
					bo, ok := ref.(*ssa.BinOp)
					if !ok || bo.Op != token.ADD || bo.X != ssa.Value(ph) {
						continue
					}
					isStride := false
					for _, ed := range ph.Edges {
						if ed == ssa.Value(bo) {
							isStride = true
						}
					}
					if isStride {
						continue
					}
					k, ok := constInt(bo.Y)
					if !ok {
						continue
					}
					n++
					top := topLevel(fn)
					r.Check(k == stride, fmt.Sprintf("%s | batch loop #%d", fname(top), n), e.instrPos(bo), fmt.Sprintf("window = stride = %d", stride), fmt.Sprintf("the batch window is start+%d but the loop advances by %d: items between them are never executed (or executed twice)", k, stride))
				}
			}
		}
	}
	_ = constant.MakeInt64
}

// ---- C13: point lookups use the tuple identity of the write path ----------------------------

// tupleIdentityColumns: the columns by which the write path identifies a tuple of backend be
// (keys of the sq.Eq literals that are appended to the DELETE's sq.Or).
func (e *Engine) tupleIdentityColumns(fn *ssa.Function) map[string]bool {
	out := map[string]bool{}
	eachInstr(fn, true, func(in ssa.Instruction) {
		c, ok := in.(*ssa.Call)
		if !ok {
			return
		}
		b, ok := c.Call.Value.(*ssa.Builtin)
		if !ok || b.Name() != "append" || len(c.Call.Args) < 2 {
			return
		}
		if n, ok := c.Type().(*types.Named); !ok || n.Obj().Name() != "Or" {
			return
		}
		elems, ok := sliceLitElems(c.Call.Args[1])
		if !ok {
			return
		}
		for _, el := range elems {
			d := predOf(el, 0)
			for _, k := range d.keys {
				out[k] = true
			}
		}
	})
	return out
}

func ruleTupleIdentity(e *Engine, r *Reporter) {
	r.Rule("point-lookup-uses-tuple-identity", "ReadUserTuple constrains every column by which the same backend's write path identifies a tuple (the DELETE predicate), plus the store: a lookup on fewer columns returns a sibling tuple", 3)
	src := map[string]*ssa.Function{
		"sqlite":   e.Func("pkg/storage/sqlite", "Datastore.write"),
		"mysql":    e.Func("pkg/storage/sqlcommon", "GetDeleteWriteChangelogItems"),
		"postgres": e.Func("pkg/storage/sqlcommon", "GetDeleteWriteChangelogItems"),
	}
	for _, be := range sqlBackends {
		id := e.tupleIdentityColumns(src[be])
		if len(id) < 4 {
			blind("point-lookup: identity columns of %s not found (%v)", be, keysOf(id))
		}
		fn := e.Func("pkg/storage/"+be, "Datastore.ReadUserTuple")
		var sel *sqlStmt
		for _, st := range e.sqlStatements(fn) {
			if st.Verb == "SELECT" && table(st) == "tuple" {
				sel = st
			}
		}
		if sel == nil {
			blind("point-lookup: no tuple SELECT in %s", fname(fn))
		}
		have := map[string]bool{}
		for _, w := range sel.Wheres {
			if len(w.Guards) == 0 {
				for _, k := range w.Keys {
					have[k] = true
				}
			}
		}
		var missing []string
		for k := range id {
			if !have[k] {
				missing = append(missing, k)
			}
		}
		r.Check(len(missing) == 0 && have["store"], be+".ReadUserTuple", e.pos(sel.Root.Pos()), fmt.Sprintf("constrains store + %v", keysOf(id)), fmt.Sprintf("the point lookup does not constrain %v although the write path identifies tuples by %v", missing, keysOf(id)))
		// the row-constructor IN of the write path agrees, too
	}
}

// ---- C13: type-prefix matches are delimited --------------------------------------------------

func ruleTypePrefixDelimited(e *Engine, r *Reporter) {
	r.Rule("type-prefix-delimited", "in the memory backend every strings.HasPrefix test against a type name appends the ':' delimiter (a bare prefix also matches every type whose name merely starts with the filter's type)", 2)
	for _, fn := range e.Fns {
		if short(pkgOf(fn)) != "pkg/storage/memory" {
			continue
		}
		for _, b := range fn.Blocks {
			for _, in := range b.Instrs {
				c, ok := in.(*ssa.Call)
				if !ok {
					continue
				}
				g := c.Call.StaticCallee()
				if g == nil || g.Pkg == nil || g.Pkg.Pkg.Path() != "strings" || g.Name() != "HasPrefix" {
					continue
				}
				p := c.Call.Args[1]
				if _, isConst := p.(*ssa.Const); isConst {
					continue
				}
				ok2 := false
				if bo, isB := p.(*ssa.BinOp); isB && bo.Op == token.ADD {
					if s, isS := constString(bo.Y); isS && s == ":" {
						ok2 = true
					}
				}
				top := topLevel(fn)
				r.Check(ok2, fmt.Sprintf("%s | HasPrefix #%d", fname(top), ordinalIn(top, c)), e.instrPos(c), "prefix ends with ':'", "type filter compared as a bare string prefix ("+describe_(p)+"): a filter for type 'user' also matches 'userset:…' and 'user_group:…'")
			}
		}
	}
}

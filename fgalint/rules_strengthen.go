package main

// Rules added after seeded changes showed gaps (DESIGN.md §6 lists which seed led to which rule).

import (
	"sort"
	"os"
	"fmt"
	"go/constant"
	"go/token"
	"go/types"
	"strings"

	"golang.org/x/tools/go/ssa"
)

// ---- C16: singleflight keys carry the store ----------------------------------------------------

func ruleSingleflightKeys(e *Engine, r *Reporter) {
	r.Rule("singleflight-key-has-store", "every singleflight key used to coalesce datastore/model lookups contains the store id (or is a cache key, which C24 shows to contain it): a flight joined across stores hands one store's data to another", 4)
	for _, fn := range e.Fns {
		if isTestSupport(pkgOf(fn)) {
			continue
		}
		for _, b := range fn.Blocks {
			for _, in := range b.Instrs {
				c, ok := in.(ssa.CallInstruction)
				if !ok {
					continue
				}
				g := c.Common().StaticCallee()
				if g == nil || g.Pkg == nil || !strings.HasSuffix(g.Pkg.Pkg.Path(), "x/sync/singleflight") || (g.Name() != "Do" && g.Name() != "DoChan") {
					continue
				}
				key := c.Common().Args[1]
				top := topLevel(fn)
				ok2, why := e.keyStringHasStore(key, 0)
				r.Check(ok2, fmt.Sprintf("%s | singleflight key #%d", fname(top), ordinalIn(top, c)), e.instrPos(c), why, "the singleflight key "+describe_(key)+" does not contain the store id: concurrent lookups of different stores with the same remaining key share one result")
			}
		}
	}
}

// keyStringHasStore: some component of a string expression is a store source or a cache key.
func (e *Engine) keyStringHasStore(v ssa.Value, depth int) (bool, string) {
	v = unwrap(v)
	if depth > 6 {
		return false, ""
	}
	if e.isStoreSource(v, 5) {
		return true, "contains store id " + describe_(v)
	}
	switch x := v.(type) {
	case *ssa.BinOp:
		if x.Op == token.ADD {
			if ok, w := e.keyStringHasStore(x.X, depth+1); ok {
				return ok, w
			}
			return e.keyStringHasStore(x.Y, depth+1)
		}
	case *ssa.Call:
		// cacheKey.String() of a keys.Key
		if f := x.Call.StaticCallee(); f != nil && f.Name() == "String" && len(x.Call.Args) == 1 && typeBaseName(x.Call.Args[0].Type()) == "Key" {
			return true, "derived from a cache key (covered by key-has-store)"
		}
		if f := x.Call.StaticCallee(); f != nil && f.Pkg != nil && f.Pkg.Pkg.Path() == "fmt" && f.Name() == "Sprintf" {
			if elems, ok := sliceLitElems(x.Call.Args[1]); ok {
				for _, el := range elems {
					if ok, w := e.keyStringHasStore(el, depth+1); ok {
						return ok, w
					}
				}
			}
		}
	case *ssa.Phi:
		for _, ed := range x.Edges {
			if ok, _ := e.keyStringHasStore(ed, depth+1); !ok {
				return false, ""
			}
		}
		return len(x.Edges) > 0, "all alternatives contain the store id"
	}
	return false, ""
}

// ---- C16: deleted stores stay hidden -------------------------------------------------------------

// mustPredKeys: column keys that are constrained on EVERY path by a Where argument.
func mustPredKeys(v ssa.Value, seen map[ssa.Value]bool) map[string]bool {
	v = unwrap(v)
	out := map[string]bool{}
	if v == nil || seen[v] {
		return out
	}
	seen[v] = true
	defer delete(seen, v)
	if _, ok := sqMapKind(v.Type()); ok {
		for _, mm := range mapOrigins(v) {
			for _, ref := range *mm.Referrers() {
				if mu, ok := ref.(*ssa.MapUpdate); ok && mu.Map == mm {
					if mi, ok := mm.(ssa.Instruction); ok && mu.Block() == mi.Block() {
						out[stripQuotes(describe_(mu.Key))+"="+describe_(mu.Value)] = true
					}
				}
			}
		}
		return out
	}
	switch x := v.(type) {
	case *ssa.Phi:
		first := true
		for _, ed := range x.Edges {
			m := mustPredKeys(ed, seen)
			if first {
				out = m
				first = false
				continue
			}
			for k := range out {
				if !m[k] {
					delete(out, k)
				}
			}
		}
		return out
	case *ssa.Call:
		if b, ok := x.Call.Value.(*ssa.Builtin); ok && b.Name() == "append" {
			out = mustPredKeys(x.Call.Args[0], seen)
			if len(x.Call.Args) > 1 {
				if elems, ok := sliceLitElems(x.Call.Args[1]); ok {
					for _, el := range elems {
						for k := range mustPredKeys(el, seen) {
							out[k] = true
						}
					}
				}
			}
			return out
		}
	case *ssa.Slice:
		if elems, ok := sliceLitElems(x); ok {
			for _, el := range elems {
				for k := range mustPredKeys(el, seen) {
					out[k] = true
				}
			}
		}
		return out
	}
	return out
}

func ruleDeletedStoresHidden(e *Engine, r *Reporter) {
	r.Rule("deleted-stores-hidden", "every SELECT on the store table constrains deleted_at IS NULL on every path (a soft-deleted store is returned by neither GetStore nor ListStores), and DeleteStore only ever sets deleted_at", 6)
	for _, st := range e.allSQLStatements() {
		if table(st) != "store" {
			continue
		}
		key := fmt.Sprintf("%s %s store", fname(st.Top), st.Verb)
		switch st.Verb {
		case "SELECT":
			// statements inside the creating transaction read back the row just inserted
			if containsCall(st.Top, "BeginTx") {
				r.OK(key, e.pos(st.Root.Pos()), "read-back inside the creating transaction")
				continue
			}
			ok := false
			for _, w := range st.Wheres {
				if w.Call == nil || len(w.Call.Call.Args) < 2 {
					continue
				}
				var rootGuards []string
				if st.Root != nil {
					rootGuards = describeGuards(st.Root.Block())
				}
				if len(diffStrings(w.Guards, rootGuards)) > 0 {
					continue
				}
				if mustPredKeys(w.Call.Call.Args[1], map[ssa.Value]bool{})["deleted_at=nil"] {
					ok = true
				}
			}
			r.Check(ok, key, e.pos(st.Root.Pos()), "deleted_at IS NULL on every path", "a path builds this SELECT without deleted_at IS NULL: soft-deleted stores become visible again — "+oneLine(st.render()))
		case "UPDATE":
			good := len(st.Sets) == 1 && strings.Contains(st.Sets[0], "deleted_at")
			r.Check(good, key, e.pos(st.Root.Pos()), "sets deleted_at only", "store rows are updated in a way other than the soft delete: "+strings.Join(st.Sets, ","))
		case "DELETE":
			r.Bad(key, e.pos(st.Root.Pos()), "hard DELETE on the store table")
		default:
			r.OK(key, e.pos(st.Root.Pos()), st.Verb)
		}
	}
}

// ---- C15/C12: batch loops cover every item -----------------------------------------------------

func ruleBatchStride(e *Engine, r *Reporter) {
	r.Rule("batch-window-equals-stride", "in the write path's batching loops (for start := 0; start < n; start += K) the window end is start+K with the same K: a smaller window silently drops items (tuples without changelog rows, or the reverse), a larger one writes items twice", 5)
	for _, fn := range e.Fns {
		if !sqlPkgs[pkgOf(fn)] {
			continue
		}
		n := 0
		for _, b := range fn.Blocks {
			for _, in := range b.Instrs {
				ph, ok := in.(*ssa.Phi)
				if !ok || len(ph.Edges) != 2 {
					continue
				}
				// phi(0, phi + K): K a constant > 1 or any non-constant value (a configured batch size)
				var strideY ssa.Value
				for _, ed := range ph.Edges {
					if bo, ok := ed.(*ssa.BinOp); ok && bo.Op == token.ADD && bo.X == ssa.Value(ph) {
						if k, ok := constInt(bo.Y); ok && k <= 1 {
							continue
						}
						strideY = bo.Y
					}
				}
				if strideY == nil {
					continue
				}
				// other uses: phi + K' (the window end)
				for _, ref := range *ph.Referrers() {
					bo, ok := ref.(*ssa.BinOp)
					if !ok || bo.Op != token.ADD || bo.X != ssa.Value(ph) {
						continue
					}
					isStride := false
					for _, ed := range ph.Edges {
						if ed == ssa.Value(bo) {
							isStride = true
						}
					}
					if isStride {
						continue
					}
					if k, ok := constInt(bo.Y); ok && k <= 1 {
						continue // start+1 style index arithmetic, not a window
					}
					n++
					top := topLevel(fn)
					ws, ss := describe_(bo.Y), describe_(strideY)
					r.Check(ws == ss, fmt.Sprintf("%s | batch loop #%d", fname(top), n), e.instrPos(bo), fmt.Sprintf("window = stride = %s", ss), fmt.Sprintf("the batch window is start+%s but the loop advances by %s: items between them are never executed (or executed twice)", ws, ss))
				}
			}
		}
	}
	_ = constant.MakeInt64
}

// ---- C13: point lookups use the tuple identity of the write path ----------------------------

// tupleIdentityColumns: the columns by which the write path identifies a tuple of backend be
// (keys of the sq.Eq literals that are appended to the DELETE's sq.Or).
func (e *Engine) tupleIdentityColumns(fn0 *ssa.Function) map[string]bool {
	out := map[string]bool{}
	for _, fn := range sameePackageRegion(fn0, 1) { // the write path and the stage helpers it is split into
		e.tupleIdentityColumnsIn(fn, out)
	}
	return out
}

func (e *Engine) tupleIdentityColumnsIn(fn *ssa.Function, out map[string]bool) map[string]bool {
	eachInstr(fn, true, func(in ssa.Instruction) {
		c, ok := in.(*ssa.Call)
		if !ok {
			return
		}
		b, ok := c.Call.Value.(*ssa.Builtin)
		if !ok || b.Name() != "append" || len(c.Call.Args) < 2 {
			return
		}
		if n, ok := c.Type().(*types.Named); !ok || n.Obj().Name() != "Or" {
			return
		}
		elems, ok := sliceLitElems(c.Call.Args[1])
		if !ok {
			return
		}
		for _, el := range elems {
			d := predOf(el, 0)
			for _, k := range d.keys {
				out[k] = true
			}
		}
	})
	return out
}

func ruleTupleIdentity(e *Engine, r *Reporter) {
	r.Rule("point-lookup-uses-tuple-identity", "ReadUserTuple constrains every column by which the same backend's write path identifies a tuple (the DELETE predicate), plus the store: a lookup on fewer columns returns a sibling tuple", 3)
	src := map[string]*ssa.Function{
		"sqlite":   e.Func("pkg/storage/sqlite", "Datastore.write"),
		"mysql":    e.Func("pkg/storage/sqlcommon", "GetDeleteWriteChangelogItems"),
		"postgres": e.Func("pkg/storage/sqlcommon", "GetDeleteWriteChangelogItems"),
	}
	for _, be := range sqlBackends {
		id := e.tupleIdentityColumns(src[be])
		if len(id) < 4 {
			blind("point-lookup: identity columns of %s not found (%v)", be, keysOf(id))
		}
		fn := e.Func("pkg/storage/"+be, "Datastore.ReadUserTuple")
		var sel *sqlStmt
		for _, st := range e.sqlStatements(fn) {
			if st.Verb == "SELECT" && table(st) == "tuple" {
				sel = st
			}
		}
		if sel == nil {
			blind("point-lookup: no tuple SELECT in %s", fname(fn))
		}
		have := map[string]bool{}
		for _, w := range sel.Wheres {
			if len(w.Guards) == 0 {
				for _, k := range w.Keys {
					have[k] = true
				}
			}
		}
		var missing []string
		for k := range id {
			if !have[k] {
				missing = append(missing, k)
			}
		}
		r.Check(len(missing) == 0 && have["store"], be+".ReadUserTuple", e.pos(sel.Root.Pos()), fmt.Sprintf("constrains store + %v", keysOf(id)), fmt.Sprintf("the point lookup does not constrain %v although the write path identifies tuples by %v", missing, keysOf(id)))
		// the row-constructor IN of the write path agrees, too
	}
}

// ---- C13: type-prefix matches are delimited --------------------------------------------------

func ruleTypePrefixDelimited(e *Engine, r *Reporter) {
	r.Rule("type-prefix-delimited", "in the memory backend every strings.HasPrefix test against a type name appends the ':' delimiter (a bare prefix also matches every type whose name merely starts with the filter's type)", 2)
	for _, fn := range e.Fns {
		if short(pkgOf(fn)) != "pkg/storage/memory" {
			continue
		}
		for _, b := range fn.Blocks {
			for _, in := range b.Instrs {
				c, ok := in.(*ssa.Call)
				if !ok {
					continue
				}
				g := c.Call.StaticCallee()
				if g == nil || g.Pkg == nil || g.Pkg.Pkg.Path() != "strings" || g.Name() != "HasPrefix" {
					continue
				}
				p := c.Call.Args[1]
				if _, isConst := p.(*ssa.Const); isConst {
					continue
				}
				ok2 := false
				if bo, isB := p.(*ssa.BinOp); isB && bo.Op == token.ADD {
					if s, isS := constString(bo.Y); isS && s == ":" {
						ok2 = true
					}
				}
				top := topLevel(fn)
				r.Check(ok2, fmt.Sprintf("%s | HasPrefix #%d", fname(top), ordinalIn(top, c)), e.instrPos(c), "prefix ends with ':'", "type filter compared as a bare string prefix ("+describe_(p)+"): a filter for type 'user' also matches 'userset:…' and 'user_group:…'")
			}
		}
	}
}

// ruleUserIdentityByParts: the sqlite schema stores a tuple's user in three columns.  A statement that pins the user's
// object id (a complete user, not a type prefix) must pin user_relation as well — '' for a plain object — whenever it
// pins the id; otherwise a filter for `group:eng` also matches `group:eng#member` rows, which the _user-string
// backends (mysql, postgres, memory) do not.
func ruleUserIdentityByParts(e *Engine, r *Reporter) {
	r.Rule("user-identity-by-parts-complete", "every sqlite tuple statement that constrains user_object_id also constrains user_relation under the same (or weaker) conditions", 3)
	n := 0
	for _, fn := range e.Fns {
		if short(pkgOf(fn)) != "pkg/storage/sqlite" || fn.Parent() != nil {
			continue
		}
		for _, st := range e.sqlStmtsDeep(fn, 0) {
			if table(st) != "tuple" || st.Top != fn {
				continue
			}
			type occ struct {
				guards []string
				text   string
			}
			var ids, rels []occ
			listed := ""
			var collect func(text string, guards []string)
			collect = func(text string, guards []string) {
				// predicates render as Eq{k=v, …} [if guard…]; nested And[...]/Or[...] lists are split on "; "
				inner := text
				for _, pre := range []string{"And[", "Or["} {
					if strings.HasPrefix(inner, pre) && strings.HasSuffix(inner, "]") {
						for _, el := range strings.Split(inner[len(pre):len(inner)-1], "; ") {
							collect(el, guards)
						}
						return
					}
				}
				g := append([]string{}, guards...)
				// element-level guard: text after the closing brace
				if j := strings.LastIndex(inner, "}"); j >= 0 && strings.HasPrefix(inner[j+1:], " if ") {
					g = append(g, strings.Split(inner[j+5:], "&&")...)
					inner = inner[:j+1]
				}
				if k := strings.Index(inner, "{"); k >= 0 && strings.HasSuffix(inner, "}") {
					for _, item := range strings.Split(inner[k+1:len(inner)-1], ", ") {
						ig := append([]string{}, g...)
						if i := strings.Index(item, " if "); i >= 0 {
							ig = append(ig, strings.Split(item[i+4:], "&&")...)
							item = item[:i]
						}
						if strings.HasPrefix(item, "user_object_id=") && item != `user_object_id="*"` { // a typed wildcard has no relation
							ids = append(ids, occ{ig, item})
							// a list of ids (IN …) beside lists of types/relations matches the cross product of the users' parts
							if v := item[len("user_object_id="):]; strings.Contains(v, "append(") || strings.HasPrefix(v, "slice:") {
								listed = item
							}
						}
						if strings.HasPrefix(item, "user_relation=") {
							rels = append(rels, occ{ig, item})
						}
					}
				}
			}
			for _, w := range st.Wheres {
				if os.Getenv("FGA_DEBUG_SQL") != "" {
					fmt.Fprintf(os.Stderr, "DBG %s: %s | %v\n", fname(fn), w.Text, w.Guards)
				}
				collect(w.Text, w.Guards)
			}
			if len(ids) == 0 {
				continue
			}
			n++
			ok := true
			detail := ""
			for _, id := range ids {
				covered := false
				for _, rl := range rels {
					if len(diffStrings(rl.guards, id.guards)) == 0 {
						covered = true
					}
				}
				if !covered {
					ok = false
					detail = fmt.Sprintf("user_object_id pinned under %v but user_relation only under %v", id.guards, func() [][]string {
						var o [][]string
						for _, rl := range rels {
							o = append(o, rl.guards)
						}
						return o
					}())
				}
			}
			if listed != "" {
				ok = false
				detail = "the user's object id is matched against a list (" + listed + ") independently of its type and relation: the filter accepts every mix of the listed users' parts"
			}
			key := fmt.Sprintf("%s %s tuple #%d", fname(fn), st.Verb, ordinalIn(fn, st.Root))
			r.Check(ok, key, e.pos(st.Root.Pos()), "user_relation pinned with the id", detail+": a plain-object user filter also matches the usersets of that object ("+oneLine(st.render())+")")
		}
	}
	if n == 0 {
		blind("user-identity-by-parts-complete: no sqlite tuple statement constrains user_object_id")
	}
}

// ruleRowsErrConsulted: database/sql's (and pgx's) Rows.Next returns false both at the end of the result set and
// when the stream broke; only Rows.Err tells the two apart.  On the false edge of every rows.Next() in the SQL
// storage packages, each path to a return passes a call of Err on the same rows value: a broken stream is reported,
// never presented as "iterator done" (the engines would then decide on partial data).
func ruleRowsErrConsulted(e *Engine, r *Reporter) {
	r.Rule("rows-err-consulted", "after rows.Next() reports false in a SQL tuple iterator, rows.Err() is consulted before the function returns (a mid-stream failure is not mistaken for the end of the data)", 4)
	for _, fn := range e.Fns {
		if !sqlPkgs[pkgOf(fn)] && !sqlPkgs[short(pkgOf(fn))] {
			continue
		}
		// scope: the tuple iterators, whose early "done" makes an engine decide on partial data.  (The same omission in
		// the paged listings — ReadChanges in the three SQL backends, the first row of
		// ConstructAuthorizationModelFromSQLRows — yields a shorter page or a spurious not-found, which no property
		// forbids; those sites were read and are deliberately not claimed.)
		if fn.Signature.Recv() == nil || !strings.Contains(typeBaseName(fn.Signature.Recv().Type()), "TupleIterator") {
			continue
		}
		ord := 0
		eachInstr(fn, false, func(in ssa.Instruction) {
			c, ok := in.(*ssa.Call)
			if !ok {
				return
			}
			o := calleeObj(c)
			if o == nil || o.Name() != "Next" || len(c.Call.Args) != 0 && !c.Call.IsInvoke() && len(c.Call.Args) != 1 {
				return
			}
			// receiver must have an Err() error method (sql.Rows, pgx.Rows, the Rows interface of sqlcommon)
			var recv ssa.Value
			if c.Call.IsInvoke() {
				recv = c.Call.Value
			} else if len(c.Call.Args) > 0 {
				recv = c.Call.Args[0]
			}
			if recv == nil {
				return
			}
			hasErr := false
			ms := types.NewMethodSet(recv.Type())
			for i := 0; i < ms.Len(); i++ {
				if m := ms.At(i).Obj(); m.Name() == "Err" {
					if sig, ok := m.Type().(*types.Signature); ok && sig.Params().Len() == 0 && sig.Results().Len() == 1 && isErrorType(sig.Results().At(0).Type()) {
						hasErr = true
					}
				}
			}
			if !hasErr || !types.Identical(c.Type(), types.Typ[types.Bool]) {
				return
			}
			// the branch on the result
			var ifi *ssa.If
			neg := false
			for _, ref := range *c.Referrers() {
				switch x := ref.(type) {
				case *ssa.If:
					ifi = x
				case *ssa.UnOp:
					if x.Op == token.NOT && x.Referrers() != nil {
						for _, r2 := range *x.Referrers() {
							if y, ok := r2.(*ssa.If); ok {
								ifi, neg = y, true
							}
						}
					}
				}
			}
			if ifi == nil {
				return
			}
			falseSucc := ifi.Block().Succs[1]
			if neg {
				falseSucc = ifi.Block().Succs[0]
			}
			rd := describe_(recv)
			isErrCall := func(in2 ssa.Instruction) bool {
				c2, ok := in2.(ssa.CallInstruction)
				if !ok {
					return false
				}
				o2 := calleeObj(c2)
				if o2 == nil || o2.Name() != "Err" {
					return false
				}
				var rv ssa.Value
				if c2.Common().IsInvoke() {
					rv = c2.Common().Value
				} else if len(c2.Common().Args) > 0 {
					rv = c2.Common().Args[0]
				}
				return rv != nil && describe_(rv) == rd
			}
			// search from the first instruction of the false successor
			leak := false
			seen := map[*ssa.BasicBlock]bool{}
			var walk func(b *ssa.BasicBlock)
			walk = func(b *ssa.BasicBlock) {
				if seen[b] || leak {
					return
				}
				seen[b] = true
				for _, in2 := range b.Instrs {
					if isErrCall(in2) {
						return
					}
					if _, isRet := in2.(*ssa.Return); isRet {
						leak = true
						return
					}
				}
				for _, s := range b.Succs {
					walk(s)
				}
			}
			walk(falseSucc)
			key := fmt.Sprintf("%s | %s.Next() #%d", fname(topLevel(fn)), rd, ord)
			ord++
			r.Check(!leak, key, e.instrPos(in), "Err() consulted on the end-of-rows path", "after "+rd+".Next() returns false the function can return without calling "+rd+".Err(): a connection reset or statement timeout in the middle of the result set is reported as the normal end of the data")
		})
	}
}

// ruleConditionsPredicateUniform: the Conditions filter of the tuple reads is applied through the same column
// expression at every site of every SQL backend.  Today that expression folds NULL into '' (rows written before the
// column was NOT NULL, or imported, carry NULL for "no condition"); a site comparing the raw column treats those
// tuples as having some other condition and drops them from "unconditioned" reads.
func ruleConditionsPredicateUniform(e *Engine, r *Reporter) {
	r.Rule("conditions-predicate-uniform", "every tuple SELECT that filters on filter.Conditions does so through the same column expression in all SQL backends and read methods", 9)
	type site struct {
		key, expr, pos string
	}
	var sites []site
	count := map[string]int{}
	for _, be := range sqlBackends {
		for _, m := range readMethods {
			fn := e.FuncOpt("pkg/storage/"+be, "Datastore."+m.impl)
			if fn == nil {
				continue
			}
			for _, st := range e.sqlStmtsDeep(fn, 1) {
				if st.Verb != "SELECT" || table(st) != "tuple" {
					continue
				}
				for _, w := range st.Wheres {
					for k, v := range w.Vals {
						if strings.HasSuffix(v, ".Conditions") {
							sites = append(sites, site{be + "." + m.name, k, e.pos(st.Root.Pos())})
							count[k]++
						}
					}
				}
			}
		}
	}
	if len(sites) == 0 {
		blind("conditions-predicate-uniform: no Conditions predicate found")
	}
	major, best := "", 0
	for k, n := range count {
		if n > best {
			major, best = k, n
		}
	}
	for _, s := range sites {
		r.Check(s.expr == major, s.key+" | Conditions column expression", s.pos, s.expr, fmt.Sprintf("this read filters conditions on `%s` while the other %d sites use `%s`: rows the others match (e.g. NULL standing for no condition) are not matched here, so one read method of one backend returns fewer tuples than its siblings", s.expr, best, major))
	}
}

// ruleExcludedUsersForwarded: ListUsers operators pass along, with every user they emit, the users an operand has
// explicitly excluded; a parent intersection/exclusion needs them to cut a wildcard.  A function that consumes its
// children's excludedUsers must hand excludedUsers on with what it emits.
func ruleExcludedUsersForwarded(e *Engine, r *Reporter) {
	r.Rule("excluded-users-forwarded", "every ListUsers operator that reads the excludedUsers of the users its operands found sets excludedUsers on every foundUser it emits itself", 2)
	n := 0
	for _, fn := range e.Fns {
		if short(pkgOf(fn)) != "pkg/server/commands/listusers" || fn.Parent() != nil {
			continue
		}
		reads := false
		type lit struct {
			at  ssa.Instruction
			set bool
		}
		var lits []*lit
		for _, g := range withClosures(fn) {
			eachInstr(g, false, func(in ssa.Instruction) {
				switch x := in.(type) {
				case *ssa.Field:
					if typeBaseName(x.X.Type()) == "foundUser" && fieldName(x.X.Type(), x.Field) == "excludedUsers" {
						reads = true
					}
				case *ssa.FieldAddr:
					if typeBaseName(derefType(x.X.Type())) != "foundUser" || fieldName(x.X.Type(), x.Field) != "excludedUsers" {
						return
					}
					for _, ref := range *x.Referrers() {
						if u, ok := ref.(*ssa.UnOp); ok && u.Op == token.MUL {
							reads = true
						}
					}
				case *ssa.Alloc:
					if typeBaseName(derefType(x.Type())) != "foundUser" {
						return
					}
					l := &lit{at: in}
					stores := 0
					for _, ref := range *x.Referrers() {
						fa, ok := ref.(*ssa.FieldAddr)
						if !ok {
							continue
						}
						for _, r2 := range *fa.Referrers() {
							if st, ok := r2.(*ssa.Store); ok && st.Addr == ssa.Value(fa) {
								stores++
								if fieldName(x.Type(), fa.Field) == "excludedUsers" {
									l.set = true
								}
							}
						}
					}
					if stores > 0 {
						lits = append(lits, l)
					}
				}
			})
		}
		if !reads || len(lits) == 0 {
			continue
		}
		for i, l := range lits {
			n++
			r.Check(l.set, fmt.Sprintf("%s | foundUser literal #%d", fname(fn), i), e.instrPos(l.at), "carries excludedUsers", "this operator collects the users its operands excluded but emits a foundUser without excludedUsers: a parent operator can no longer tell which concrete users a wildcard result does not cover, and ListUsers returns a user Check denies")
		}
	}
	if n == 0 {
		blind("excluded-users-forwarded: no operator reading excludedUsers and emitting foundUser found")
	}
}

// ruleModelIDListDistinct: ReadAuthorizationModels of the mysql and postgres backends pages over a list of model ids
// selected from a table whose key is (store, authorization_model_id, type): models written by old releases occupy one
// row per type.  The id list the page and its continuation token are cut from must therefore be DISTINCT.
func ruleModelIDListDistinct(e *Engine, r *Reporter) {
	r.Rule("model-id-list-distinct", "a SELECT of authorization_model_id alone from authorization_model (the id list that is paged) is DISTINCT in every backend that builds it", 2)
	n := 0
	for _, be := range sqlBackends {
		fn := e.FuncOpt("pkg/storage/"+be, "Datastore.ReadAuthorizationModels")
		if fn == nil {
			continue
		}
		for _, st := range e.sqlStmtsDeep(fn, 1) {
			if st.Verb != "SELECT" || table(st) != "authorization_model" {
				continue
			}
			if len(st.Columns) != 1 || !strings.Contains(st.Columns[0], "authorization_model_id") {
				continue // selects whole rows: grouped by the caller, not paged by id alone
			}
			n++
			distinct := false
			for _, s := range st.Suffix {
				if s == "DISTINCT" {
					distinct = true
				}
			}
			r.Check(distinct, be+".ReadAuthorizationModels | id list", e.pos(st.Root.Pos()), "SELECT DISTINCT authorization_model_id", "the paged id list is not DISTINCT: a model stored as one row per type is listed once per row, pages repeat it and the continuation token can point at itself")
		}
	}
	if n == 0 {
		blind("model-id-list-distinct: no id-only SELECT on authorization_model found")
	}
}

// ruleNoLossAfterConsume: a tuple iterator's Next that has taken a row from the result set hands that row to its
// caller: once the inner advance returned without error, no path returns a nil tuple.  (A context check placed after
// the advance consumes a row and then reports only the context error — the row is lost to the caching wrappers,
// which keep what was buffered and drain the rest.)
func ruleNoLossAfterConsume(e *Engine, r *Reporter) {
	r.Rule("no-loss-after-consume", "in the SQL tuple iterators' Next, every return reachable after the inner advance succeeded returns the row that was read (a cancelled context is noticed before a row is consumed, not after)", 2)
	n := 0
	for _, fn := range e.Fns {
		if !sqlPkgs[pkgOf(fn)] || fn.Signature.Recv() == nil || fn.Name() != "Next" || !strings.Contains(typeBaseName(fn.Signature.Recv().Type()), "TupleIterator") {
			continue
		}
		// the inner advance: a call to a method of the same receiver type returning (…, error)
		var adv *ssa.Call
		eachInstr(fn, false, func(in ssa.Instruction) {
			c, ok := in.(*ssa.Call)
			if !ok || adv != nil {
				return
			}
			g := c.Call.StaticCallee()
			if g == nil || g.Signature.Recv() == nil || !types.Identical(g.Signature.Recv().Type(), fn.Signature.Recv().Type()) {
				return
			}
			res := g.Signature.Results()
			if res.Len() == 2 && isErrorType(res.At(1).Type()) {
				adv = c
			}
		})
		if adv == nil {
			continue
		}
		n++
		okEdge := func(f Fact) bool {
			return f.Kind == "nil" && f.Positive && derivesFrom(f.X, func(v ssa.Value) bool {
				ex, ok := v.(*ssa.Extract)
				return ok && ex.Tuple == ssa.Value(adv) && ex.Index == 1
			})
		}
		bad := ""
		for _, b := range fn.Blocks {
			for si := range b.Succs {
				hit := false
				for _, f := range edgeFacts(b, si) {
					if okEdge(f) {
						hit = true
					}
				}
				if !hit {
					continue
				}
				reach := blocksReachableFrom(b.Succs[si])
				for _, rs := range returnSites(fn) {
					if reach[rs.At.Block()] && len(rs.Results) >= 1 && isNilConst(rs.Results[0]) {
						bad = e.instrPos(rs.At)
					}
				}
			}
		}
		r.Check(bad == "", fname(fn)+" | consumed row is returned", e.instrPos(adv), "after a successful advance only the row is returned", "after the inner advance succeeded the iterator can still return no tuple ("+bad+"): the consumed row is dropped, and a caching wrapper that keeps the buffered prefix and drains the rest stores a result without it")
	}
	if n == 0 {
		blind("no-loss-after-consume: no SQL tuple iterator Next found")
	}
}


// ruleIteratorHeadNextAgree: head() and next() of a SQL tuple iterator decode the same row into the same record;
// both must fill the same fields of storage.TupleRecord (a field decoded by only one of them makes the tuple depend
// on whether the consumer peeked first).
func ruleIteratorHeadNextAgree(e *Engine, r *Reporter) {
	r.Rule("iterator-head-next-agree", "head and next of every SQL tuple iterator touch the same set of storage.TupleRecord fields", 2)
	n := 0
	byType := map[string]map[string]*ssa.Function{}
	for _, fn := range e.Fns {
		if !sqlPkgs[pkgOf(fn)] || fn.Signature.Recv() == nil || fn.Parent() != nil {
			continue
		}
		tn := typeBaseName(fn.Signature.Recv().Type())
		if !strings.Contains(tn, "TupleIterator") {
			continue
		}
		nm := pinnedSpellingName(fn)
		if nm == "head" || nm == "next" {
			k := short(pkgOf(fn)) + "." + tn
			if byType[k] == nil {
				byType[k] = map[string]*ssa.Function{}
			}
			byType[k][nm] = fn
		}
	}
	fieldsOf := func(fn *ssa.Function) map[string]bool {
		out := map[string]bool{}
		eachInstr(fn, false, func(in ssa.Instruction) {
			if fa, ok := in.(*ssa.FieldAddr); ok && typeBaseName(derefType(fa.X.Type())) == "TupleRecord" {
				out[fieldName(fa.X.Type(), fa.Field)] = true
			}
		})
		return out
	}
	for k, m := range byType {
		if m["head"] == nil || m["next"] == nil {
			continue
		}
		n++
		h, nx := fieldsOf(m["head"]), fieldsOf(m["next"])
		var diff []string
		for f := range nx {
			if !h[f] {
				diff = append(diff, f+" (next only)")
			}
		}
		for f := range h {
			if !nx[f] {
				diff = append(diff, f+" (head only)")
			}
		}
		sort.Strings(diff)
		r.Check(len(diff) == 0, k+" | head/next fill the same record fields", e.pos(m["head"].Pos()), fmt.Sprintf("%d fields each", len(h)), fmt.Sprintf("head and next decode different fields of the tuple record: %v — a tuple reached by peeking first differs from the same tuple read directly", diff))
	}
	if n == 0 {
		blind("iterator-head-next-agree: no SQL tuple iterator with head and next found")
	}
}

// replaceIdent replaces whole-word occurrences of the identifier id in s.
func replaceIdent(s, id, with string) string {
	var b strings.Builder
	for i := 0; i < len(s); {
		j := strings.Index(s[i:], id)
		if j < 0 {
			b.WriteString(s[i:])
			break
		}
		j += i
		before := j == 0 || !isIdentChar(s[j-1])
		after := j+len(id) >= len(s) || !isIdentChar(s[j+len(id)])
		b.WriteString(s[i:j])
		if before && after {
			b.WriteString(with)
		} else {
			b.WriteString(id)
		}
		i = j + len(id)
	}
	return b.String()
}

// topLevelOr: the raw SQL fragment contains an OR outside every pair of parentheses (and outside string literals).
func topLevelOr(sql string) bool {
	depth := 0
	inStr := false
	up := strings.ToUpper(sql)
	for i := 0; i < len(up); i++ {
		ch := up[i]
		if ch == '\'' {
			inStr = !inStr
			continue
		}
		if inStr {
			continue
		}
		switch ch {
		case '(':
			depth++
		case ')':
			depth--
		}
		if depth == 0 && strings.HasPrefix(up[i:], " OR ") {
			return true
		}
	}
	return false
}

// ruleRawDisjunctionParenthesised: squirrel joins the parts given to Where with AND and does not parenthesise raw
// expressions.  A raw fragment with an OR at its top level therefore escapes every other conjunct — the store
// predicate first of all: `store = ? AND … AND a OR b` is `(store = ? AND … AND a) OR b`.
func ruleRawDisjunctionParenthesised(e *Engine, r *Reporter) {
	r.Rule("raw-disjunction-parenthesised", "no raw SQL fragment passed to Where (directly, through sq.Expr, or returned by a helper) on a store-scoped table has an OR outside parentheses: it would bind weaker than the AND that joins it to the store predicate", 0)
	for _, fn := range e.Fns {
		if !sqlPkgs[pkgOf(fn)] || fn.Parent() != nil {
			continue
		}
		for _, st := range e.sqlStmtsDeep(fn, 0) {
			if st.Top != fn || !storeScopedTables[table(st)] {
				continue
			}
			for i, w := range st.Wheres {
				// raw fragments appear as raw(…) or Expr("…") in the rendered predicate (also inside alt(…))
				frags := []string{}
				t := w.Text
				for _, marker := range []string{"raw(", "Expr("} {
					for off := 0; ; {
						j := strings.Index(t[off:], marker)
						if j < 0 {
							break
						}
						j += off + len(marker)
						depth := 1
						k := j
						for ; k < len(t) && depth > 0; k++ {
							switch t[k] {
							case '(':
								depth++
							case ')':
								depth--
							}
						}
						frags = append(frags, strings.Trim(t[j:k-1], `"`))
						off = k
					}
				}
				for _, fr := range frags {
					r.Check(!topLevelOr(fr), fmt.Sprintf("%s %s %s where #%d", fname(fn), st.Verb, table(st), i), e.pos(st.Root.Pos()), "no top-level OR", "the raw fragment `"+fr+"` has an OR outside parentheses; ANDed with the other predicates it reads as (store = ? AND …) OR <rest>: rows of every store that satisfy the rest are returned")
				}
			}
		}
	}
}

package main

// C24 / C16 / C08 / C07: cache-key builders.

import (
	"fmt"
	"go/types"
	"sort"
	"strings"

	"golang.org/x/tools/go/ssa"
)

const keysPkg = modPath + "/pkg/storage/cache/keys"

func isKeyBuilderMethod(c ssa.CallInstruction) (string, bool) {
	f := c.Common().StaticCallee()
	if f == nil || f.Signature.Recv() == nil {
		return "", false
	}
	if typeBaseName(f.Signature.Recv().Type()) != "Builder" || pkgOf(canon(f)) != keysPkg {
		return "", false
	}
	return f.Name(), true
}

type keyFunc struct {
	fn      *ssa.Function // function containing GetBuilder (may be a closure)
	top     *ssa.Function
	encodes []keyEncode
}

type keyEncode struct {
	method string
	arg    ssa.Value
	text   string
	call   ssa.CallInstruction
}

// keyFunctions finds every function that obtains a key builder and lists what it encodes
// (following one level of helper calls that receive the builder).
func (e *Engine) keyFunctions() []*keyFunc {
	var out []*keyFunc
	gb := e.FuncObj("pkg/storage/cache/keys", "GetBuilder")
	for _, fn := range e.Fns {
		if isTestSupport(pkgOf(fn)) || pkgOf(fn) == keysPkg {
			continue
		}
		has := false
		for _, b := range fn.Blocks {
			for _, in := range b.Instrs {
				if c, ok := in.(ssa.CallInstruction); ok && calleeObj(c) == gb {
					has = true
				}
			}
		}
		if !has {
			continue
		}
		kf := &keyFunc{fn: fn, top: topLevel(fn)}
		eachInstr(fn, true, func(in ssa.Instruction) {
			c, ok := in.(ssa.CallInstruction)
			if !ok {
				return
			}
			m, ok := isKeyBuilderMethod(c)
			if !ok {
				return
			}
			if !strings.HasPrefix(m, "Encode") && m != "Serialize" && !strings.HasPrefix(m, "Write") {
				return
			}
			args := c.Common().Args[1:]
			for _, a := range args {
				kf.encodes = append(kf.encodes, keyEncode{m, a, describe_(a), c})
			}
		})
		out = append(out, kf)
	}
	sort.Slice(out, func(i, j int) bool { return fname(out[i].fn) < fname(out[j].fn) })
	return out
}


// ---- store sources --------------------------------------------------------------------------

// storageIfaceMethod: fn is a method whose receiver implements a pkg/storage interface that has
// a method of the same name (so its first string parameter is the store id by contract).
func (e *Engine) storageIfaceMethod(fn *ssa.Function) bool {
	if fn.Signature.Recv() == nil {
		return false
	}
	sc := e.Pkg("pkg/storage").Types.Scope()
	for _, n := range sc.Names() {
		tn, ok := sc.Lookup(n).(*types.TypeName)
		if !ok {
			continue
		}
		it, ok := tn.Type().Underlying().(*types.Interface)
		if !ok {
			continue
		}
		for i := 0; i < it.NumMethods(); i++ {
			if it.Method(i).Name() == fn.Name() && types.Identical(stripRecv(it.Method(i).Type().(*types.Signature)), stripRecv(fn.Signature)) {
				return true
			}
		}
	}
	return false
}

func stripRecv(s *types.Signature) *types.Signature {
	return types.NewSignatureType(nil, nil, nil, s.Params(), s.Results(), s.Variadic())
}

func (e *Engine) isStoreSource(v ssa.Value, depth int) bool {
	v = unwrap(v)
	d := describe_(v)
	for _, tok := range []string{"GetStoreID()", "GetStoreId()", ".StoreID", ".StoreId", ".storeID"} {
		if strings.HasSuffix(d, tok) {
			return true
		}
	}
	var p *ssa.Parameter
	switch x := v.(type) {
	case *ssa.Parameter:
		p = x
	case *ssa.FreeVar:
		top := topLevel(x.Parent())
		for _, q := range top.Params {
			if q.Name() == x.Name() {
				p = q
			}
		}
	case *ssa.UnOp:
		return e.isStoreSource(x.X, depth)
	case *ssa.Alloc:
		sts := storesTo(x)
		return len(sts) == 1 && e.isStoreSource(sts[0].Val, depth)
	case *ssa.Phi:
		for _, ed := range x.Edges {
			if !e.isStoreSource(ed, depth) {
				return false
			}
		}
		return len(x.Edges) > 0
	}
	if p == nil {
		return false
	}
	fn := p.Parent()
	if p == firstStringParam(fn) && e.storageIfaceMethod(fn) {
		return true
	}
	if depth == 0 {
		return false
	}
	idx := -1
	for i, q := range fn.Params {
		if q == p {
			idx = i
		}
	}
	n := 0
	for _, cs := range e.allCallSites(fn) {
		n++
		args := callArgs(cs)
		if cs.Common().IsInvoke() {
			// invoke: args[0] is the receiver, like a method's Params[0]
		}
		if idx >= len(args) || !e.isStoreSource(args[idx], depth-1) {
			return false
		}
	}
	return n > 0
}

// requestLocalKeys are key builders for per-request indexes that never enter a shared cache.
var requestLocalKeys = map[string]string{
	"internal/check.ctxTuplesByObjectKey": "index into the request's own contextual-tuple map; lives and dies with the Request",
	"internal/check.ctxTuplesByUserKey":   "index into the request's own contextual-tuple map; lives and dies with the Request",
}

func ruleKeyHasStore(e *Engine, r *Reporter) {
	r.Rule("key-has-store", "every shared cache / planner / invalidation key encodes the store id (a value that is the request's or datastore method's store at every call site)", 15)
	for _, kf := range e.keyFunctions() {
		name := fname(kf.fn)
		if why, ok := requestLocalKeys[name]; ok {
			r.OK(name, e.pos(kf.fn.Pos()), "exempt: "+why)
			continue
		}
		ok := false
		what := ""
		for _, en := range kf.encodes {
			if e.isStoreSource(en.arg, 7) {
				ok = true
				what = en.text
				break
			}
		}
		// keys that embed the invariant (which hashes the store) also carry it, but the rule asks for the explicit component
		r.Check(ok, name, e.pos(kf.fn.Pos()), "encodes store via "+what, "no encoded component is the store id at every call site: entries of different stores with equal remaining components would share a key")
	}
}

// frozen reference: what the request/edge-typed key inputs contribute today (confirmed by reading).
var keyGetterReference = map[string][]string{
	"internal/check.EdgeCacheKey arg0":                  {"StoreID", "AuthorizationModelID", "TupleKey.Object", "TupleKey.User", "InvariantCacheKey"},
	"internal/check.EdgeCacheKey arg1":                  {"RelationDefinition", "EdgeType", "To.UniqueLabel", "TuplesetRelation"},
	"internal/check.createUsersetPlanKey arg0":          {"StoreID", "AuthorizationModelID", "ObjectType", "TupleKey.Relation", "UserType"},
	"internal/check.createTTUPlanKey arg0":              {"StoreID", "AuthorizationModelID", "ObjectType", "TupleKey.Relation", "UserType"},
	"internal/check.createRecursiveUsersetPlanKey arg0": {"StoreID", "AuthorizationModelID", "UserType"},
	"internal/check.createRecursiveTTUPlanKey arg0":     {"StoreID", "AuthorizationModelID", "UserType"},
}

func ruleKeyParamsEncoded(e *Engine, r *Reporter) {
	r.Rule("key-params-encoded", "every input of a key builder reaches the encoding: scalar parameters are encoded, every field of a filter struct is read into the key, request/edge-typed inputs contribute at least the reviewed getter set", 40)
	for _, kf := range e.keyFunctions() {
		fn := kf.fn
		if fn.Parent() != nil {
			continue
		}
		name := fname(fn)
		var all []string
		for _, en := range kf.encodes {
			all = append(all, en.text)
		}
		joined := strings.Join(all, " ; ")
		for _, p := range fn.Params {
			pn := paramName(p)
			key := fmt.Sprintf("%s %s", name, pn)
			t := p.Type()
			switch u := t.Underlying().(type) {
			case *types.Basic:
				ok := mentionsArg(joined, pn)
				r.Check(ok, key, e.pos(fn.Pos()), "encoded", fmt.Sprintf("parameter %s (%s) is not part of the encoded key: two inputs differing only in it share a key", p.Name(), pn))
			case *types.Struct:
				paths := e.accessPaths(fn, p, 3)
				for i := 0; i < u.NumFields(); i++ {
					f := u.Field(i).Name()
					r.Check(paths.has(f), key+"."+f, e.pos(fn.Pos()), "read into the key", fmt.Sprintf("filter field %s is not read by the key builder although the backends filter on it: differing queries share a cache entry", f))
				}
				// nested: every element path a backend reads from this filter is also read by the key builder
				if nt, ok := types.Unalias(t).(*types.Named); ok {
					for _, m := range readMethods {
						if m.filter != nt.Obj().Name() {
							continue
						}
						want := pathSet{}
						for _, be := range append([]string{"memory"}, sqlBackends...) {
							recv := "Datastore."
							if be == "memory" {
								recv = "MemoryBackend."
							}
							bf := e.FuncOpt("pkg/storage/"+be, recv+m.impl)
							if bf == nil {
								continue
							}
							if _, bp := paramOfType(bf, nt); bp != nil {
								for pth := range e.accessPaths(bf, bp, 3) {
									if strings.Contains(pth, ".") && !strings.HasSuffix(pth, "!") {
										want[pth] = true
									}
								}
							}
						}
						for _, pth := range want.sorted() {
							r.Check(paths.has(pth) || oneofEquivalent(u, paths, pth), key+"."+pth, e.pos(fn.Pos()), "element path read by the backends is read into the key", fmt.Sprintf("the backends filter on %s but the key builder never reads it: queries differing only there share a cache entry", pth))
						}
					}
				}
			case *types.Pointer, *types.Interface:
				ref, has := keyGetterReference[key]
				if !has {
					// a proto/struct pointer without a reviewed reference: must at least be used
					paths := e.accessPaths(fn, p, 3)
					r.Check(len(paths) > 0, key, e.pos(fn.Pos()), fmt.Sprintf("reads %v", paths.sorted()), "parameter is not used by the key builder")
					continue
				}
				paths := e.accessPaths(fn, p, 3)
				for _, g := range ref {
					r.Check(paths.has(g), key+"."+g, e.pos(fn.Pos()), "contributes to the key", fmt.Sprintf("the key no longer depends on %s of this input (reviewed reference set: %v)", g, ref))
				}
			case *types.Slice:
				paths := e.accessPaths(fn, p, 3)
				_ = paths
				ok := mentionsArg(joined, pn) || paramUsed(p)
				r.Check(ok, key, e.pos(fn.Pos()), "used", "slice parameter is not used by the key builder")
			}
		}
	}
}

func paramUsed(p *ssa.Parameter) bool {
	return p.Referrers() != nil && len(*p.Referrers()) > 0
}

func mentionsArg(text, arg string) bool {
	i := 0
	for {
		j := strings.Index(text[i:], arg)
		if j < 0 {
			return false
		}
		k := i + j + len(arg)
		before := i+j == 0 || !isIdentChar(text[i+j-1])
		after := k >= len(text) || !isIdentChar(text[k])
		if before && after {
			return true
		}
		i = k
	}
}

func isIdentChar(c byte) bool {
	return c == '_' || c >= '0' && c <= '9' || c >= 'a' && c <= 'z' || c >= 'A' && c <= 'Z'
}

// ruleTupleKeyWriter: keys.Tuple.WriteTo encodes every field of TupleKey incl. condition name+context;
// keys.PbValue.WriteTo is total over structpb kinds.
func ruleKeySerializers(e *Engine, r *Reporter) {
	r.Rule("key-serializers", "keys.Tuple.WriteTo reads object, relation, user, condition name and condition context; keys.PbValue.WriteTo covers every structpb kind and sorts struct fields before encoding", 5)
	fn := e.Func("pkg/storage/cache/keys", "Tuple.WriteTo")
	paths := e.accessPaths(fn, fn.Params[0], 2)
	for _, g := range []string{"Object", "Relation", "User", "Condition.Name", "Condition.Context"} {
		r.Check(paths.has(g), "keys.Tuple.WriteTo "+g, e.pos(fn.Pos()), "encoded", "contextual tuples differing only in "+g+" produce the same invariant key")
	}
	for _, s := range e.typeSwitches() {
		if s.Func == "PbValue.WriteTo" {
			ok, d := judgeSwitch(s, nil)
			r.Check(ok && len(s.Missing) == 0, s.key(), e.pos(s.Pos), d, d)
		}
	}
	// sorted struct fields: the EncodeMapHeader call is preceded by a sort
	pv := e.Func("pkg/storage/cache/keys", "PbValue.WriteTo")
	n, ok := 0, true
	eachInstr(pv, false, func(in ssa.Instruction) {
		c, isCall := in.(ssa.CallInstruction)
		if !isCall {
			return
		}
		if m, isB := isKeyBuilderMethod(c); isB && m == "EncodeMapHeader" {
			n++
			if g, _ := mustPass(pv, in, cutSpec{instr: isSortCall}); !g {
				ok = false
			}
		}
	})
	r.Check(ok && n > 0, "keys.PbValue.WriteTo map fields sorted", e.pos(pv.Pos()), "sort precedes the map header", "struct fields are encoded in map-iteration order: equal contexts give different keys and (worse) different contexts can be confused when order is not canonical")
}

func isSortCall(in ssa.Instruction) bool {
	c, ok := in.(ssa.CallInstruction)
	if !ok {
		return false
	}
	f := c.Common().StaticCallee()
	if f == nil {
		return false
	}
	f = canon(f)
	if f.Pkg == nil {
		return false
	}
	switch f.Pkg.Pkg.Path() {
	case "slices":
		return strings.HasPrefix(f.Name(), "Sort")
	case "sort":
		switch f.Name() {
		case "Sort", "Strings", "Slice", "SliceStable", "Stable":
			return true
		}
	}
	return false
}

// ruleKeyCanonicalOrder: every element stored into a keys.Array / []Serializable in pkg/storage
// happens after a sort of the source data (or the source is a SortedSet).
func ruleKeyCanonicalOrder(e *Engine, r *Reporter) {
	r.Rule("key-canonical-order", "list-valued key inputs are sorted before they are encoded (or come from a SortedSet)", 4)
	for _, fn := range e.Fns {
		if pkgOf(fn) != modPath+"/pkg/storage" || fn.Parent() != nil {
			continue
		}
		n, ok := 0, true
		var bad ssa.Instruction
		eachInstr(fn, false, func(in ssa.Instruction) {
			st, isSt := in.(*ssa.Store)
			if !isSt {
				return
			}
			ia, isIA := st.Addr.(*ssa.IndexAddr)
			if !isIA {
				return
			}
			sl, isSl := ia.X.Type().Underlying().(*types.Slice)
			if !isSl || typeBaseName(sl.Elem()) != "Serializable" {
				return
			}
			n++
			if strings.Contains(describe_(st.Val), ".Values()") {
				return // SortedSet
			}
			if g, _ := mustPass(fn, in, cutSpec{instr: isSortCall}); !g {
				ok = false
				bad = in
			}
		})
		if n == 0 {
			continue
		}
		pos := e.pos(fn.Pos())
		if bad != nil {
			pos = e.instrPos(bad)
		}
		r.Check(ok, fname(fn), pos, fmt.Sprintf("%d element stores follow a sort", n), "elements are placed in the key in input order: reordered but equal filter lists / contextual tuples give different keys")
	}
}

// allCallSites: static call sites, invoke sites of interface methods fn implements, and — for a
// closure that is used as a value of a named func type — dynamic calls through that type.
func (e *Engine) allCallSites(fn *ssa.Function) []ssa.CallInstruction {
	var out []ssa.CallInstruction
	add := func(cs []ssa.CallInstruction) {
		for _, c := range cs {
			if !isTestSupport(pkgOf(c.Parent())) {
				out = append(out, c)
			}
		}
	}
	add(e.callers[canon(fn)])
	if o, ok := fn.Object().(*types.Func); ok && fn.Signature.Recv() != nil {
		for im, sites := range e.invokes {
			if implementsMethod(o, im) {
				add(sites)
			}
		}
	}
	if fn.Parent() != nil {
		// named func types with this signature in the module
		for _, g := range e.Fns {
			for _, b := range g.Blocks {
				for _, in := range b.Instrs {
					c, ok := in.(ssa.CallInstruction)
					if !ok || c.Common().IsInvoke() || c.Common().StaticCallee() != nil {
						continue
					}
					nt, ok := c.Common().Value.Type().(*types.Named)
					if !ok {
						continue
					}
					if sig, ok := nt.Underlying().(*types.Signature); ok && types.Identical(sig, fn.Signature) {
						add([]ssa.CallInstruction{c})
					}
				}
			}
		}
	}
	return out
}


// oneofEquivalent: the backends read a protobuf oneof through its flattening getter (ref.GetRelation()), the key
// builder through a type switch on the wrapper (ref.GetRelationOrWildcard().(type) … r.Relation).  F.x is covered by
// F.o.x for an interface-typed (oneof) field o of the element message, and — when variant x carries no scalar
// payload (an empty message such as Wildcard) — by the type switch on F.o itself.
func oneofEquivalent(filter *types.Struct, paths pathSet, pth string) bool {
	segs := strings.Split(pth, ".")
	if len(segs) != 2 {
		return false
	}
	var elem *types.Struct
	var elemNamed *types.Named
	for i := 0; i < filter.NumFields(); i++ {
		if filter.Field(i).Name() != segs[0] {
			continue
		}
		t := filter.Field(i).Type()
		if sl, ok := t.Underlying().(*types.Slice); ok {
			t = sl.Elem()
		}
		t = derefType(t)
		if n, ok := types.Unalias(t).(*types.Named); ok {
			elemNamed = n
			elem, _ = n.Underlying().(*types.Struct)
		}
	}
	if elem == nil {
		return false
	}
	for i := 0; i < elem.NumFields(); i++ {
		f := elem.Field(i)
		if _, ok := f.Type().Underlying().(*types.Interface); !ok || !f.Exported() {
			continue
		}
		if paths.has(segs[0] + "." + f.Name() + "." + segs[1]) {
			return true
		}
		// variant without scalar payload, distinguished by the type switch alone
		if w, ok := elemNamed.Obj().Pkg().Scope().Lookup(elemNamed.Obj().Name() + "_" + segs[1]).(*types.TypeName); ok {
			if ws, ok := w.Type().Underlying().(*types.Struct); ok && ws.NumFields() == 1 {
				if _, isPtr := ws.Field(0).Type().Underlying().(*types.Pointer); isPtr && paths.has(segs[0]+"."+f.Name()) {
					return true
				}
			}
		}
	}
	return false
}

// ---- framing: an element is never omitted from the encoding because it is empty ---------------------------

// ipdoms computes the immediate post-dominator of every block (nil = the virtual exit).
func ipdoms(fn *ssa.Function) map[*ssa.BasicBlock]*ssa.BasicBlock {
	n := len(fn.Blocks)
	// pdom sets as bitsets over block indices; index n = virtual exit
	full := make([]bool, n+1)
	for i := range full {
		full[i] = true
	}
	pd := make([][]bool, n+1)
	for i := 0; i <= n; i++ {
		pd[i] = append([]bool(nil), full...)
	}
	pd[n] = make([]bool, n+1)
	pd[n][n] = true
	succs := func(b *ssa.BasicBlock) []int {
		if len(b.Succs) == 0 {
			return []int{n}
		}
		var out []int
		for _, s := range b.Succs {
			out = append(out, s.Index)
		}
		return out
	}
	for changed := true; changed; {
		changed = false
		for i := n - 1; i >= 0; i-- {
			b := fn.Blocks[i]
			nw := append([]bool(nil), full...)
			for _, s := range succs(b) {
				for k := range nw {
					nw[k] = nw[k] && pd[s][k]
				}
			}
			nw[i] = true
			for k := range nw {
				if nw[k] != pd[i][k] {
					changed = true
				}
			}
			pd[i] = nw
		}
	}
	out := map[*ssa.BasicBlock]*ssa.BasicBlock{}
	for i := 0; i < n; i++ {
		// the strict post-dominator that is post-dominated by all other strict post-dominators
		var best *ssa.BasicBlock
		bestCount := -1
		for k := 0; k < n; k++ {
			if k == i || !pd[i][k] {
				continue
			}
			cnt := 0
			for j := 0; j <= n; j++ {
				if pd[k][j] {
					cnt++
				}
			}
			if cnt > bestCount {
				best, bestCount = fn.Blocks[k], cnt
			}
		}
		out[fn.Blocks[i]] = best
	}
	return out
}

func isEmptinessFact(f Fact) bool {
	lenOf := func(v ssa.Value) bool {
		c, ok := unwrap(v).(*ssa.Call)
		if !ok {
			return false
		}
		b, ok := c.Call.Value.(*ssa.Builtin)
		return ok && b.Name() == "len"
	}
	switch f.Kind {
	case "eq":
		if s, ok := constString(f.Y); ok && s == "" {
			return true
		}
		return lenOf(f.X) || (f.Y != nil && lenOf(f.Y))
	case ">", "<", ">=", "<=":
		return lenOf(f.X) || (f.Y != nil && lenOf(f.Y))
	}
	return false
}

func ruleEncodeNotEmptinessConditional(e *Engine, r *Reporter) {
	r.Rule("encode-not-omitted-when-empty", "in the key encoders no element is written on one side of an emptiness test (len(x) > 0, x != \"\") while the other side reaches the join without writing anything: an element omitted when empty removes the framing that makes the concatenation uniquely decodable", 0)
	isEncode := func(in ssa.Instruction) bool {
		c, ok := in.(ssa.CallInstruction)
		if !ok {
			return false
		}
		m, ok := isKeyBuilderMethod(c)
		return ok && (strings.HasPrefix(m, "Encode") || m == "Serialize" || strings.HasPrefix(m, "Write"))
	}
	var fns []*ssa.Function
	for _, fn := range e.Fns {
		if isTestSupport(pkgOf(fn)) || len(fn.Blocks) == 0 {
			continue
		}
		has := false
		eachInstr(fn, false, func(in ssa.Instruction) {
			if isEncode(in) {
				has = true
			}
		})
		// scope: encoders proper — the keys package itself and functions that return a keys.Key
		// (key planning code that happens to build a key inline branches on emptiness for other reasons)
		isKeyFn := pkgOf(fn) == keysPkg
		if res := fn.Signature.Results(); res.Len() == 1 && typeBaseName(res.At(0).Type()) == "Key" {
			isKeyFn = true
		}
		if has && isKeyFn {
			fns = append(fns, fn)
		}
	}
	if len(fns) < 10 {
		blind("encode-not-omitted-when-empty: only %d functions with builder encodes found", len(fns))
	}
	n := 0
	for _, fn := range fns {
		pd := ipdoms(fn)
		ord := 0
		for _, b := range fn.Blocks {
			ifi, ok := b.Instrs[len(b.Instrs)-1].(*ssa.If)
			if !ok {
				continue
			}
			emp := false
			for _, f := range edgeFacts(b, 0) {
				if isEmptinessFact(f) {
					emp = true
				}
			}
			if !emp || loopHeader(b) == b {
				continue // loop-continuation tests are not omission decisions
			}
			join := pd[b]
			// does a side reach the join without an encode / with an encode?
			side := func(start *ssa.BasicBlock) (withEnc, bare bool) {
				type st struct {
					b   *ssa.BasicBlock
					enc bool
				}
				seen := map[st]bool{}
				work := []st{{start, false}}
				for len(work) > 0 {
					x := work[len(work)-1]
					work = work[:len(work)-1]
					if x.b == join {
						if x.enc {
							withEnc = true
						} else {
							bare = true
						}
						continue
					}
					if seen[x] {
						continue
					}
					seen[x] = true
					enc := x.enc
					for _, in := range x.b.Instrs {
						if isEncode(in) {
							enc = true
						}
					}
					if len(x.b.Succs) == 0 {
						// leaves the function (return/panic): nothing more is written either way
						if join == nil {
							if enc {
								withEnc = true
							} else {
								bare = true
							}
						}
						continue
					}
					for _, s := range x.b.Succs {
						work = append(work, st{s, enc})
					}
				}
				return
			}
			w0, b0 := side(b.Succs[0])
			w1, b1 := side(b.Succs[1])
			if !(w0 || w1) {
				continue // the test does not decide about an encode
			}
			n++
			bad := (w0 && b1 && !w1) || (w1 && b0 && !w0)
			key := fmt.Sprintf("%s | emptiness test #%d", fname(fn), ord)
			ord++
			_ = ifi
			r.Check(!bad, key, e.instrPos(ifi), "both sides write, or neither", "an element is encoded only when non-empty and the empty case writes nothing: without the element's tag the following strings shift into its position, so distinct inputs encode identically before hashing")
		}
	}
}

package main

// Path queries on SSA control-flow graphs. All "must" questions are answered by cut
// reachability: remove the instructions/edges that establish the required fact and ask
// whether the target is still reachable from the start; if not, every path passes one.

import (
	"go/constant"
	"go/token"
	"go/types"

	"golang.org/x/tools/go/ssa"
)

// A Fact is what an If edge establishes about its condition.
type Fact struct {
	Kind     string    // "nil" (X == nil is Positive), "call" (bool call result is Positive), "eq" (X == Const), "bool" (X is Positive), "lt","gt","le","ge" comparisons
	X        ssa.Value // operand (nil/eq/bool/cmp) or the call value
	Y        ssa.Value // right operand for comparisons and non-constant eq
	Call     ssa.CallInstruction
	Positive bool
	If       *ssa.If
}

func unwrap(v ssa.Value) ssa.Value {
	for {
		switch x := v.(type) {
		case *ssa.ChangeType:
			v = x.X
		case *ssa.ChangeInterface:
			v = x.X
		case *ssa.MakeInterface:
			v = x.X
		case *ssa.Convert:
			v = x.X
		default:
			return v
		}
	}
}

func isNilConst(v ssa.Value) bool {
	c, ok := v.(*ssa.Const)
	return ok && c.Value == nil && !isBasic(c.Type())
}

func isBasic(t types.Type) bool {
	_, ok := t.Underlying().(*types.Basic)
	return ok
}

// factsOf decomposes a condition value; positive tells whether the condition is true on the edge.
func factsOf(cond ssa.Value, positive bool, ifi *ssa.If) []Fact {
	switch c := cond.(type) {
	case *ssa.UnOp:
		if c.Op == token.NOT {
			return factsOf(c.X, !positive, ifi)
		}
	case *ssa.BinOp:
		switch c.Op {
		case token.EQL, token.NEQ:
			pos := positive
			if c.Op == token.NEQ {
				pos = !pos
			}
			if isNilConst(c.Y) {
				return []Fact{{Kind: "nil", X: c.X, Positive: pos, If: ifi}}
			}
			if isNilConst(c.X) {
				return []Fact{{Kind: "nil", X: c.Y, Positive: pos, If: ifi}}
			}
			fs := []Fact{{Kind: "eq", X: c.X, Y: c.Y, Positive: pos, If: ifi}}
			// bool == true/false
			if k, ok := c.Y.(*ssa.Const); ok && k.Value != nil && k.Value.Kind() == constant.Bool {
				b := constant.BoolVal(k.Value)
				fs = append(fs, factsOf(c.X, pos == b, ifi)...)
			}
			return fs
		case token.LSS, token.GTR, token.LEQ, token.GEQ:
			return []Fact{{Kind: c.Op.String(), X: c.X, Y: c.Y, Positive: positive, If: ifi}}
		}
	case *ssa.Call:
		return []Fact{{Kind: "call", X: c, Call: c, Positive: positive, If: ifi}}
	case *ssa.Phi:
		// `a && b` / `a || b` materialised as a value: on the edge where the phi is true and
		// all-but-one incoming values are constant false, the remaining operand is true (&&-chain
		// gives no single fact). Keep it conservative: report the phi itself only.
	}
	return []Fact{{Kind: "bool", X: cond, Positive: positive, If: ifi}}
}

// edgeFacts returns the facts on edge (b -> b.Succs[i]) when b ends in an If.
func edgeFacts(b *ssa.BasicBlock, i int) []Fact {
	if len(b.Instrs) == 0 {
		return nil
	}
	ifi, ok := b.Instrs[len(b.Instrs)-1].(*ssa.If)
	if !ok {
		return nil
	}
	return factsOf(ifi.Cond, i == 0, ifi)
}

type cutSpec struct {
	// instr: reaching an instruction for which this returns true ends the path (it is "passed through").
	instr func(ssa.Instruction) bool
	// edge: an edge whose facts satisfy this is removed.
	edge func(Fact) bool
}

type point struct {
	b *ssa.BasicBlock
	i int // index of the instruction about to execute
}

// reachable reports whether target can be reached from `from` (exclusive: execution starts
// at the instruction after from, or at the function entry when from is nil) without passing a
// cut. It returns a witness path of block indices when reachable.
func reachable(fn *ssa.Function, from ssa.Instruction, target func(ssa.Instruction) bool, cut cutSpec) (bool, []int) {
	if len(fn.Blocks) == 0 {
		return false, nil
	}
	start := point{fn.Blocks[0], 0}
	if from != nil {
		b := from.Block()
		for i, in := range b.Instrs {
			if in == from {
				start = point{b, i + 1}
			}
		}
	}
	type node struct {
		b    *ssa.BasicBlock
		prev *node
	}
	// scan a block from index i; returns (hitTarget, fallsThrough)
	scan := func(b *ssa.BasicBlock, i int) (bool, bool) {
		for ; i < len(b.Instrs); i++ {
			in := b.Instrs[i]
			if target(in) {
				return true, false
			}
			if cut.instr != nil && cut.instr(in) {
				return false, false
			}
		}
		return false, true
	}
	witness := func(n *node) []int {
		var p []int
		for ; n != nil; n = n.prev {
			p = append([]int{n.b.Index}, p...)
		}
		return p
	}
	seen := map[*ssa.BasicBlock]bool{}
	first := &node{start.b, nil}
	hit, through := scan(start.b, start.i)
	if hit {
		return true, witness(first)
	}
	if !through {
		return false, nil
	}
	queue := []*node{first}
	// note: the start block may be re-entered from its top through a loop; that is handled by
	// not marking it seen unless we started at index 0.
	if start.i == 0 {
		seen[start.b] = true
	}
	for len(queue) > 0 {
		n := queue[0]
		queue = queue[1:]
		for si, s := range n.b.Succs {
			if cut.edge != nil {
				removed := false
				for _, f := range edgeFacts(n.b, si) {
					if cut.edge(f) {
						removed = true
						break
					}
				}
				if removed {
					continue
				}
			}
			if seen[s] {
				continue
			}
			seen[s] = true
			nn := &node{s, n}
			hit, through := scan(s, 0)
			if hit {
				return true, witness(nn)
			}
			if through {
				queue = append(queue, nn)
			}
		}
	}
	return false, nil
}

// mustPass: every path from the entry of fn to `at` passes a cut.
func mustPass(fn *ssa.Function, at ssa.Instruction, cut cutSpec) (bool, []int) {
	r, w := reachable(fn, nil, func(in ssa.Instruction) bool { return in == at }, cut)
	return !r, w
}

// isReturn reports a Return instruction.
func isReturn(in ssa.Instruction) bool { _, ok := in.(*ssa.Return); return ok }

// resultOf returns true if v is (an Extract of) the result of call c; idx -1 accepts any index.
func resultOf(v ssa.Value, c ssa.CallInstruction, idx int) bool {
	v = unwrap(v)
	if cv, ok := c.(ssa.Value); ok && v == cv {
		return true
	}
	if ex, ok := v.(*ssa.Extract); ok {
		if cv, ok := c.(ssa.Value); ok && ex.Tuple == cv && (idx < 0 || ex.Index == idx) {
			return true
		}
	}
	return false
}

// derivesFrom reports whether v is computed from src through phis, extracts, conversions,
// field loads of locals holding it (store/load through an Alloc) — value identity, not data dependence.
func derivesFrom(v ssa.Value, src func(ssa.Value) bool) bool {
	seen := map[ssa.Value]bool{}
	var rec func(ssa.Value) bool
	rec = func(v ssa.Value) bool {
		if v == nil || seen[v] {
			return false
		}
		seen[v] = true
		if src(v) {
			return true
		}
		switch x := v.(type) {
		case *ssa.Phi:
			for _, e := range x.Edges {
				if rec(e) {
					return true
				}
			}
		case *ssa.Extract:
			return rec(x.Tuple)
		case *ssa.ChangeType:
			return rec(x.X)
		case *ssa.ChangeInterface:
			return rec(x.X)
		case *ssa.MakeInterface:
			return rec(x.X)
		case *ssa.Convert:
			return rec(x.X)
		case *ssa.TypeAssert:
			return rec(x.X)
		case *ssa.UnOp:
			if x.Op == token.MUL {
				// load: look at stores into the address
				for _, st := range storesTo(x.X) {
					if rec(st.Val) {
						return true
					}
				}
				return rec(x.X)
			}
		}
		return false
	}
	return rec(v)
}

// storesTo lists the Store instructions whose address is addr (same SSA value).
func storesTo(addr ssa.Value) []*ssa.Store {
	var out []*ssa.Store
	if addr.Referrers() == nil {
		return nil
	}
	for _, r := range *addr.Referrers() {
		if st, ok := r.(*ssa.Store); ok && st.Addr == addr {
			out = append(out, st)
		}
	}
	return out
}

// liftToParent maps an instruction inside an anonymous function to the MakeClosure
// instruction that creates it in the enclosing function, one level.
func (e *Engine) liftToParent(in ssa.Instruction) ssa.Instruction {
	fn := in.Parent()
	if mc := e.parent[fn]; mc != nil {
		return mc
	}
	return nil
}

// guardedAnyLevel: at is guarded by cut in its own function or, if it sits in a closure,
// the closure creation is guarded in an enclosing function.
func (e *Engine) guardedAnyLevel(at ssa.Instruction, cut cutSpec) bool {
	for at != nil {
		if ok, _ := mustPass(at.Parent(), at, cut); ok {
			return true
		}
		at = e.liftToParent(at)
	}
	return false
}

// constString returns the constant string value of v if it is one.
func constString(v ssa.Value) (string, bool) {
	if c, ok := unwrap(v).(*ssa.Const); ok && c.Value != nil && c.Value.Kind() == constant.String {
		return constant.StringVal(c.Value), true
	}
	return "", false
}

func constInt(v ssa.Value) (int64, bool) {
	if c, ok := unwrap(v).(*ssa.Const); ok && c.Value != nil && c.Value.Kind() == constant.Int {
		n, ok := constant.Int64Val(c.Value)
		return n, ok
	}
	return 0, false
}

func constBool(v ssa.Value) (bool, bool) {
	if c, ok := unwrap(v).(*ssa.Const); ok && c.Value != nil && c.Value.Kind() == constant.Bool {
		return constant.BoolVal(c.Value), true
	}
	return false, false
}

// ---- access paths ---------------------------------------------------------------------------

// accessPaths computes, for a root value in fn, the set of field/getter paths read from it,
// following pass-through into callees (module functions) up to depth. A path is a dotted list of
// field names and getter names with the "Get" prefix stripped, e.g. "TupleKey.User".
type pathSet map[string]bool

func (e *Engine) accessPaths(fn *ssa.Function, root ssa.Value, depth int) pathSet {
	out := pathSet{}
	e.trackPaths(fn, root, "", depth, out, map[string]bool{})
	return out
}

func getterName(o *types.Func) (string, bool) {
	n := o.Name()
	if len(n) > 3 && n[:3] == "Get" {
		sig := o.Type().(*types.Signature)
		if sig.Params().Len() == 0 && sig.Results().Len() == 1 && sig.Recv() != nil {
			return n[3:], true
		}
	}
	return "", false
}

func join(p, f string) string {
	if p == "" {
		return f
	}
	return p + "." + f
}

func (e *Engine) trackPaths(fn *ssa.Function, root ssa.Value, prefix string, depth int, out pathSet, visiting map[string]bool) {
	key := fn.String() + "|" + root.Name() + "|" + prefix
	if visiting[key] {
		return
	}
	visiting[key] = true
	// worklist of (value, path)
	type vp struct {
		v ssa.Value
		p string
	}
	seen := map[vp]bool{}
	var work []vp
	push := func(v ssa.Value, p string) {
		k := vp{v, p}
		if !seen[k] {
			seen[k] = true
			work = append(work, k)
		}
	}
	push(root, prefix)
	for len(work) > 0 {
		cur := work[len(work)-1]
		work = work[:len(work)-1]
		refs := cur.v.Referrers()
		if refs == nil {
			continue
		}
		for _, r := range *refs {
			switch x := r.(type) {
			case *ssa.FieldAddr:
				if x.X == cur.v {
					name := fieldName(x.X.Type(), x.Field)
					p := join(cur.p, name)
					out[p] = true
					push(x, p)
				}
			case *ssa.Field:
				if x.X == cur.v {
					name := fieldName(x.X.Type(), x.Field)
					p := join(cur.p, name)
					out[p] = true
					push(x, p)
				}
			case *ssa.UnOp:
				if x.Op == token.MUL && x.X == cur.v {
					push(x, cur.p)
				}
			case *ssa.Store:
				if x.Val == cur.v {
					// spilled into a local: the address now denotes the same path
					if _, ok := x.Addr.(*ssa.Alloc); ok {
						push(x.Addr, cur.p)
					}
				}
			case *ssa.Phi:
				push(x, cur.p)
			case *ssa.ChangeType:
				push(x, cur.p)
			case *ssa.ChangeInterface:
				push(x, cur.p)
			case *ssa.MakeInterface:
				push(x, cur.p)
			case *ssa.Convert:
				push(x, cur.p)
			case *ssa.TypeAssert:
				push(x, cur.p)
			case *ssa.Extract:
				push(x, cur.p)
			case *ssa.Index:
				if x.X == cur.v {
					push(x, cur.p)
				}
			case *ssa.IndexAddr:
				if x.X == cur.v {
					push(x, cur.p)
				}
			case *ssa.Slice:
				if x.X == cur.v {
					push(x, cur.p)
				}
			case *ssa.Range:
				push(x, cur.p)
			case *ssa.Next:
				push(x, cur.p)
			case *ssa.MakeClosure:
				// captured: follow into the closure's free variable
				if f, ok := x.Fn.(*ssa.Function); ok {
					for i, b := range x.Bindings {
						if b == cur.v && i < len(f.FreeVars) {
							e.trackPaths(f, f.FreeVars[i], cur.p, depth, out, visiting)
						}
					}
				}
			case ssa.CallInstruction:
				cc := x.Common()
				args := callArgs(x)
				for ai, a := range args {
					if a != cur.v {
						continue
					}
					// getter on the tracked value?
					if o := calleeObj(x); o != nil && ai == 0 && o.Type().(*types.Signature).Recv() != nil {
						if g, ok := getterName(o); ok {
							p := join(cur.p, g)
							out[p] = true
							if v, ok := x.(ssa.Value); ok {
								push(v, p)
							}
							continue
						}
					}
					// len/cap/builtins: the value itself is used
					if _, ok := cc.Value.(*ssa.Builtin); ok {
						if cur.p != "" {
							out[cur.p] = true
						}
						if v, ok := x.(ssa.Value); ok && cc.Value.Name() == "append" {
							push(v, cur.p)
						}
						continue
					}
					callee := cc.StaticCallee()
					if callee != nil && callee.Blocks != nil && e.inModule(callee) && depth > 0 && ai < len(callee.Params) {
						e.trackPaths(callee, callee.Params[ai], cur.p, depth-1, out, visiting)
						// results may alias the argument (e.g. helper returning a sub-structure): not followed
						continue
					}
					// opaque use of the whole value
					if cur.p != "" {
						out[cur.p+"!"] = true
					} else {
						out["!"] = true
					}
				}
			default:
				// comparison, return, send, etc.: whole-value use
				if cur.p != "" {
					out[cur.p] = true
				}
			}
		}
	}
}

func fieldName(t types.Type, i int) string {
	if p, ok := t.Underlying().(*types.Pointer); ok {
		t = p.Elem()
	}
	if s, ok := t.Underlying().(*types.Struct); ok && i < s.NumFields() {
		return s.Field(i).Name()
	}
	return "?"
}

// hasPrefixPath reports whether set contains path p or a longer path below it.
func (s pathSet) has(p string) bool {
	for k := range s {
		k2 := k
		if len(k2) > 0 && k2[len(k2)-1] == '!' {
			k2 = k2[:len(k2)-1]
			// opaque use of a prefix covers everything below it
			if k2 == "" || p == k2 || len(p) > len(k2) && p[:len(k2)+1] == k2+"." {
				return true
			}
		}
		if k2 == p || len(k2) > len(p) && k2[:len(p)+1] == p+"." {
			return true
		}
	}
	return false
}

func (s pathSet) sorted() []string {
	var out []string
	for k := range s {
		out = append(out, k)
	}
	sortStrings(out)
	return out
}

package main

// C06: ListUsers — dispatch, read filtering, cycle guard and two reviewed bookkeeping invariants.

import (
	"fmt"
	"go/token"
	"strings"

	"golang.org/x/tools/go/ssa"
)

const luPkg = "pkg/server/commands/listusers"

func ruleListUsers(e *Engine, r *Reporter) {
	r.Rule("listusers-cycle-guard", "listUsersQuery.expand evaluates a rewrite only after enteredCycle(req) returned false, and the cycle key is built from the object (type and id) and the relation", 2)
	ex := e.Func(luPkg, "listUsersQuery.expand")
	var rw ssa.Instruction
	eachInstr(ex, false, func(in ssa.Instruction) {
		if isCallNamed(in, "expandRewrite") {
			rw = in
		}
	})
	if rw == nil {
		blind("listusers: expandRewrite call not found in expand")
	}
	g, _ := mustPass(ex, rw, cutSpec{edge: func(f Fact) bool { return callFactNamed(f, "enteredCycle", false) }})
	r.Check(g, fname(ex)+" | expandRewrite behind !enteredCycle", e.instrPos(rw), "cycle guard on every dispatch", "a relation can be expanded again although it is already on the current path (cyclic data then never terminates / users are duplicated)")
	ec := e.Func(luPkg, "enteredCycle")
	keyOK := false
	eachInstr(ec, false, func(in ssa.Instruction) {
		if l, ok := in.(*ssa.Lookup); ok {
			d := describe_(l.Index)
			if strings.Contains(d, "ObjectKey(") && strings.Contains(d, ".Relation") {
				keyOK = true
			}
		}
	})
	r.Check(keyOK, fname(ec)+" | key = object#relation", e.pos(ec.Pos()), "object key and relation", "the cycle key no longer contains both the object and the relation: distinct sub-problems are taken for a cycle (results lost) or cycles go unnoticed")

	r.Rule("listusers-intersection-votes", "expandIntersection gives each operand exactly one vote per user: the per-user count is only ever changed by the constant 1, and a user is sent only when count + wildcardCount equals the number of operands", 2)
	ei := e.Func(luPkg, "listUsersQuery.expandIntersection")
	nUpd, okUpd := 0, true
	eachInstr(ei, true, func(in ssa.Instruction) {
		mu, ok := in.(*ssa.MapUpdate)
		if !ok {
			return
		}
		bo, ok := mu.Value.(*ssa.BinOp)
		if !ok || (bo.Op != token.ADD && bo.Op != token.SUB) {
			return
		}
		if mu.Map.Type().Underlying().String() != "map[string]uint32" {
			return
		}
		nUpd++
		if k, isC := constInt(bo.Y); !isC || k != 1 {
			okUpd = false
		}
	})
	r.Check(okUpd && nUpd >= 2, fname(ei)+" | counts change by exactly one", e.pos(ei.Pos()), fmt.Sprintf("%d count updates, all +/-1", nUpd), "a per-user count is changed by something other than 1: a user derived twice by one operand is counted as if two operands had produced it")
	sendOK := false
	eachInstr(ei, false, func(in ssa.Instruction) {
		if !isCallNamed(in, "TrySendThroughChannel") {
			return
		}
		for _, f := range controlFacts(in.Block()) {
			d := describeFact(f)
			if f.Kind == "eq" && f.Positive && strings.Contains(d, ".Load()") && strings.Contains(d, "len(") {
				sendOK = true
			}
		}
	})
	r.Check(sendOK, fname(ei)+" | sent only when every operand voted", e.pos(ei.Pos()), "count + wildcardCount == len(operands)", "a user is sent without the all-operands test")

	r.Rule("listusers-exclusion-wildcard", "expandExclusion, when the base holds the typed wildcard, reports a base user as having the relation only if neither the user nor the wildcard is subtracted", 1)
	xe := e.Func(luPkg, "listUsersQuery.expandExclusion")
	found, ok2 := false, false
	eachInstr(xe, false, func(in ssa.Instruction) {
		if !isCallNamed(in, "TrySendThroughChannel") || found {
			return
		}
		c := in.(ssa.CallInstruction)
		d := describe_(c.Common().Args[1])
		// the plain "has relationship" message: only the user field is set
		if !strings.Contains(d, "foundUser{user=") || strings.Contains(d, "relationshipStatus=") || strings.Contains(d, "excludedUsers=") {
			return
		}
		found = true
		n := 0
		seenIdx := map[string]bool{}
		for _, f := range controlFacts(in.Block()) {
			if f.Kind == "bool" && !f.Positive {
				dx := describe_(f.X)
				if strings.Contains(dx, "#1") && strings.Contains(dx, "[") && !seenIdx[dx] {
					seenIdx[dx] = true
					n++
				}
			}
		}
		ok2 = n >= 2
	})
	r.Check(found && ok2, fname(xe)+" | wildcard base: positive only if user and wildcard unsubtracted", e.pos(xe.Pos()), "guarded by both lookups", "with a wildcard in the base, a user is reported as having the relation although the subtracted side holds the wildcard (or the user): consumers that accept any positive message (union, intersection) then return users that Check denies")
}

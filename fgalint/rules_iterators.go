package main

// C23: iterator adapters — Stop delegation, stateful filters last.

import (
	"fmt"
	"go/types"
	"sort"
	"strings"

	"golang.org/x/tools/go/ssa"
)

func iterElemType(t types.Type) (types.Type, bool) {
	if isIteratorType(t) {
		return t, true
	}
	switch u := t.Underlying().(type) {
	case *types.Slice:
		if isIteratorType(u.Elem()) {
			return u.Elem(), true
		}
	case *types.Array:
		if isIteratorType(u.Elem()) {
			return u.Elem(), true
		}
	}
	return nil, false
}

func ruleStopDelegation(e *Engine, r *Reporter) {
	r.Rule("stop-delegation", "every iterator adapter's Stop stops (directly, through a helper method or a background drain) every iterator it holds in a field", 10)
	type item struct {
		named *types.Named
		stop  *ssa.Function
	}
	seen := map[string]bool{}
	var items []item
	for _, fn := range e.Fns {
		if fn.Parent() != nil || fn.Name() != "Stop" || fn.Signature.Recv() == nil || isTestSupport(pkgOf(fn)) {
			continue
		}
		rt := derefType(fn.Signature.Recv().Type())
		n, ok := rt.(*types.Named)
		if !ok || !isIteratorType(fn.Signature.Recv().Type()) {
			continue
		}
		k := n.Origin().Obj().Pkg().Path() + "." + n.Origin().Obj().Name()
		if seen[k] {
			continue
		}
		seen[k] = true
		items = append(items, item{n, fn})
	}
	sort.Slice(items, func(i, j int) bool { return items[i].named.String() < items[j].named.String() })
	for _, it := range items {
		st, ok := it.named.Underlying().(*types.Struct)
		if !ok {
			continue
		}
		// functions reachable from Stop within the same receiver type (helpers, closures, goroutines)
		var fns []*ssa.Function
		seenF := map[*ssa.Function]bool{}
		var add func(f *ssa.Function, d int)
		add = func(f *ssa.Function, d int) {
			if f == nil || seenF[f] || f.Blocks == nil {
				return
			}
			seenF[f] = true
			fns = append(fns, withClosures(f)...)
			if d == 0 {
				return
			}
			eachInstr(f, true, func(in ssa.Instruction) {
				if c, ok := in.(ssa.CallInstruction); ok {
					if g := c.Common().StaticCallee(); g != nil && g.Signature.Recv() != nil && typeBaseName(g.Signature.Recv().Type()) == it.named.Obj().Name() {
						add(g, d-1)
					}
				}
			})
		}
		add(it.stop, 2)
		for i := 0; i < st.NumFields(); i++ {
			f := st.Field(i)
			if _, ok := iterElemType(f.Type()); !ok {
				continue
			}
			stopped := false
			for _, g := range fns {
				eachInstr(g, false, func(in ssa.Instruction) {
					// method value handed to sync.Once.Do etc.:  once.Do(f.iter.Stop)
					if mc, ok := in.(*ssa.MakeClosure); ok {
						if bf, ok := mc.Fn.(*ssa.Function); ok && strings.HasPrefix(bf.Name(), "Stop") && len(mc.Bindings) == 1 && strings.Contains(describe_(mc.Bindings[0]), "."+f.Name()) {
							stopped = true
						}
						return
					}
					c, ok := in.(ssa.CallInstruction)
					if !ok {
						return
					}
					name := ""
					var recv ssa.Value
					if c.Common().IsInvoke() {
						name, recv = c.Common().Method.Name(), c.Common().Value
					} else if sc := c.Common().StaticCallee(); sc != nil && sc.Signature.Recv() != nil && len(c.Common().Args) > 0 {
						name, recv = sc.Name(), c.Common().Args[0]
					}
					if name != "Stop" || recv == nil {
						return
					}
					d := describe_(recv)
					if strings.Contains(d, "."+f.Name()) {
						stopped = true
					}
				})
			}
			key := fmt.Sprintf("%s.%s field=%s", short(it.named.Obj().Pkg().Path()), it.named.Obj().Name(), f.Name())
			r.Check(stopped, key, e.pos(it.stop.Pos()), "stopped by Stop", "Stop does not stop the iterator(s) held in field "+f.Name()+": the wrapped datastore iterator stays open when the adapter is stopped early")
		}
	}
}

func ruleStatefulFilterLast(e *Engine, r *Reporter) {
	r.Rule("stateful-filter-last", "in every filter chain a filter that records what it has seen (BuildUniqueTupleKeyFilter over the shared visited map) is appended after every filter that can still reject the element; otherwise an element is marked seen without being yielded", 2)
	uniq := e.FuncObj("internal/check", "BuildUniqueTupleKeyFilter")
	n := 0
	for _, cs := range e.CallSitesOf(uniq, false) {
		fn := cs.Parent()
		top := topLevel(fn)
		n++
		// the append that takes this filter
		var app ssa.Instruction
		cv, _ := cs.(ssa.Value)
		if cv != nil {
			for _, in := range collectAppendsOf(cv) {
				app = in
			}
		}
		key := fmt.Sprintf("%s", strings.Replace(fname(top), "(*internal/check.", "internal/check.(*", 1))
		key = fname(top)
		if app == nil {
			r.Bad(key, e.instrPos(cs), "the unique filter is not appended to a filter chain in a recognisable way")
			continue
		}
		// no other append into a filter slice is reachable after it
		later, _ := reachable(fn, app, func(in ssa.Instruction) bool {
			c, ok := in.(*ssa.Call)
			if !ok || in == app {
				return false
			}
			b, ok := c.Call.Value.(*ssa.Builtin)
			if !ok || b.Name() != "append" {
				return false
			}
			return types.Identical(c.Type(), app.(*ssa.Call).Type())
		}, cutSpec{})
		r.Check(!later, "stateful-filter-last | "+strings.TrimPrefix(key, "(*"), e.instrPos(app), "no rejecting filter is appended after the de-duplication filter", "a filter is appended after the de-duplication filter: a tuple rejected by the later filter (e.g. its condition) has already been recorded as visited and hides another tuple that reaches the same key")
	}
	if n == 0 {
		blind("stateful-filter-last: BuildUniqueTupleKeyFilter is never called")
	}
}

// collectAppendsOf: append calls whose appended elements include v.
func collectAppendsOf(v ssa.Value) []ssa.Instruction {
	var out []ssa.Instruction
	seen := map[ssa.Value]bool{}
	var walk func(ssa.Value)
	walk = func(v ssa.Value) {
		if v == nil || seen[v] || v.Referrers() == nil {
			return
		}
		seen[v] = true
		for _, ref := range *v.Referrers() {
			switch x := ref.(type) {
			case *ssa.Store:
				if ia, ok := x.Addr.(*ssa.IndexAddr); ok {
					walk(ia.X)
				}
			case *ssa.Slice:
				walk(x)
			case *ssa.MakeInterface, *ssa.ChangeType:
				walk(x.(ssa.Value))
			case *ssa.Call:
				if b, ok := x.Call.Value.(*ssa.Builtin); ok && b.Name() == "append" {
					out = append(out, x)
				}
			}
		}
	}
	walk(v)
	return out
}

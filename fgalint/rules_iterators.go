package main

// C23: iterator adapters — Stop delegation, stateful filters last.

import (
	"fmt"
	"go/types"
	"sort"
	"strings"

	"golang.org/x/tools/go/ssa"
)

func iterElemType(t types.Type) (types.Type, bool) {
	if isIteratorType(t) {
		return t, true
	}
	switch u := t.Underlying().(type) {
	case *types.Slice:
		if isIteratorType(u.Elem()) {
			return u.Elem(), true
		}
	case *types.Array:
		if isIteratorType(u.Elem()) {
			return u.Elem(), true
		}
	}
	return nil, false
}

func ruleStopDelegation(e *Engine, r *Reporter) {
	r.Rule("stop-delegation", "every iterator adapter's Stop stops (directly, through a helper method or a background drain) every iterator it holds in a field", 10)
	type item struct {
		named *types.Named
		stop  *ssa.Function
	}
	seen := map[string]bool{}
	var items []item
	for _, fn := range e.Fns {
		if fn.Parent() != nil || fn.Name() != "Stop" || fn.Signature.Recv() == nil || isTestSupport(pkgOf(fn)) {
			continue
		}
		rt := derefType(fn.Signature.Recv().Type())
		n, ok := rt.(*types.Named)
		if !ok || !isIteratorType(fn.Signature.Recv().Type()) {
			continue
		}
		k := n.Origin().Obj().Pkg().Path() + "." + n.Origin().Obj().Name()
		if seen[k] {
			continue
		}
		seen[k] = true
		items = append(items, item{n, fn})
	}
	sort.Slice(items, func(i, j int) bool { return items[i].named.String() < items[j].named.String() })
	for _, it := range items {
		st, ok := it.named.Underlying().(*types.Struct)
		if !ok {
			continue
		}
		// functions reachable from Stop within the same receiver type (helpers, closures, goroutines)
		var fns []*ssa.Function
		seenF := map[*ssa.Function]bool{}
		var add func(f *ssa.Function, d int)
		add = func(f *ssa.Function, d int) {
			if f == nil || seenF[f] || f.Blocks == nil {
				return
			}
			seenF[f] = true
			fns = append(fns, withClosures(f)...)
			if d == 0 {
				return
			}
			eachInstr(f, true, func(in ssa.Instruction) {
				if c, ok := in.(ssa.CallInstruction); ok {
					if g := c.Common().StaticCallee(); g != nil && g.Signature.Recv() != nil && typeBaseName(g.Signature.Recv().Type()) == it.named.Obj().Name() {
						add(g, d-1)
					}
				}
			})
		}
		add(it.stop, 2)
		for i := 0; i < st.NumFields(); i++ {
			f := st.Field(i)
			if _, ok := iterElemType(f.Type()); !ok {
				continue
			}
			stopped := false
			for _, g := range fns {
				eachInstr(g, false, func(in ssa.Instruction) {
					// method value handed to sync.Once.Do etc.:  once.Do(f.iter.Stop)
					if mc, ok := in.(*ssa.MakeClosure); ok {
						if bf, ok := mc.Fn.(*ssa.Function); ok && strings.HasPrefix(bf.Name(), "Stop") && len(mc.Bindings) == 1 && strings.Contains(describe_(mc.Bindings[0]), "."+f.Name()) {
							stopped = true
						}
						return
					}
					c, ok := in.(ssa.CallInstruction)
					if !ok {
						return
					}
					name := ""
					var recv ssa.Value
					if c.Common().IsInvoke() {
						name, recv = c.Common().Method.Name(), c.Common().Value
					} else if sc := c.Common().StaticCallee(); sc != nil && sc.Signature.Recv() != nil && len(c.Common().Args) > 0 {
						name, recv = sc.Name(), c.Common().Args[0]
					}
					if name != "Stop" || recv == nil {
						return
					}
					d := describe_(recv)
					if strings.Contains(d, "."+f.Name()) {
						stopped = true
					}
				})
			}
			key := fmt.Sprintf("%s.%s field=%s", short(it.named.Obj().Pkg().Path()), it.named.Obj().Name(), f.Name())
			r.Check(stopped, key, e.pos(it.stop.Pos()), "stopped by Stop", "Stop does not stop the iterator(s) held in field "+f.Name()+": the wrapped datastore iterator stays open when the adapter is stopped early")
		}
	}
}

func ruleStatefulFilterLast(e *Engine, r *Reporter) {
	r.Rule("stateful-filter-last", "in every filter chain a filter that records what it has seen (BuildUniqueTupleKeyFilter over the shared visited map) is appended after every filter that can still reject the element; otherwise an element is marked seen without being yielded", 2)
	uniq := e.FuncObj("internal/check", "BuildUniqueTupleKeyFilter")
	n := 0
	for _, cs := range e.CallSitesOf(uniq, false) {
		fn := cs.Parent()
		top := topLevel(fn)
		n++
		// the append that takes this filter
		var app ssa.Instruction
		cv, _ := cs.(ssa.Value)
		if cv != nil {
			for _, in := range collectAppendsOf(cv) {
				app = in
			}
		}
		key := fmt.Sprintf("%s", strings.Replace(fname(top), "(*internal/check.", "internal/check.(*", 1))
		key = fname(top)
		if app == nil {
			r.Bad(key, e.instrPos(cs), "the unique filter is not appended to a filter chain in a recognisable way")
			continue
		}
		// no other append into a filter slice is reachable after it
		later, _ := reachable(fn, app, func(in ssa.Instruction) bool {
			c, ok := in.(*ssa.Call)
			if !ok || in == app {
				return false
			}
			b, ok := c.Call.Value.(*ssa.Builtin)
			if !ok || b.Name() != "append" {
				return false
			}
			return types.Identical(c.Type(), app.(*ssa.Call).Type())
		}, cutSpec{})
		r.Check(!later, "stateful-filter-last | "+strings.TrimPrefix(key, "(*"), e.instrPos(app), "no rejecting filter is appended after the de-duplication filter", "a filter is appended after the de-duplication filter: a tuple rejected by the later filter (e.g. its condition) has already been recorded as visited and hides another tuple that reaches the same key")
	}
	if n == 0 {
		blind("stateful-filter-last: BuildUniqueTupleKeyFilter is never called")
	}
}

// collectAppendsOf: append calls whose appended elements include v.
func collectAppendsOf(v ssa.Value) []ssa.Instruction {
	var out []ssa.Instruction
	seen := map[ssa.Value]bool{}
	var walk func(ssa.Value)
	walk = func(v ssa.Value) {
		if v == nil || seen[v] || v.Referrers() == nil {
			return
		}
		seen[v] = true
		for _, ref := range *v.Referrers() {
			switch x := ref.(type) {
			case *ssa.Store:
				if ia, ok := x.Addr.(*ssa.IndexAddr); ok {
					walk(ia.X)
				}
			case *ssa.Slice:
				walk(x)
			case *ssa.MakeInterface, *ssa.ChangeType:
				walk(x.(ssa.Value))
			case *ssa.Call:
				if b, ok := x.Call.Value.(*ssa.Builtin); ok && b.Name() == "append" {
					out = append(out, x)
				}
			}
		}
	}
	walk(v)
	return out
}

// ruleBackgroundDrainStopsInner: an adapter whose Stop hands the wrapped iterator to a background goroutine (to drain
// it into a cache) must release it on every way out of that goroutine.  A Stop of the inner iterator that sits in a
// closure given to some other function (singleflight.Do runs it for the first caller only) or on one branch only does
// not count.
func ruleBackgroundDrainStopsInner(e *Engine, r *Reporter) {
	r.Rule("background-drain-stops-inner", "in every goroutine started by an iterator adapter's Stop, each path to the goroutine's end passes a Stop of the wrapped iterator that belongs to the goroutine's own body (a deferred call at its start, or a call on every path)", 1)
	n := 0
	for _, fn := range e.Fns {
		if fn.Parent() != nil || fn.Name() != "Stop" || fn.Signature.Recv() == nil || isTestSupport(pkgOf(fn)) || !isIteratorType(fn.Signature.Recv().Type()) {
			continue
		}
		for _, g := range withClosures(fn) {
			// g is started with `go`
			mc := e.parent[g]
			if mc == nil {
				continue
			}
			isGo := false
			for _, ref := range *mc.Referrers() {
				if _, ok := ref.(*ssa.Go); ok {
					isGo = true
				}
			}
			if !isGo {
				continue
			}
			// does the goroutine (or anything nested in it) stop an iterator-typed field of the receiver?
			isInnerStop := func(in ssa.Instruction) bool {
				c, ok := in.(ssa.CallInstruction)
				if !ok {
					return false
				}
				cc := c.Common()
				name := ""
				var recv ssa.Value
				if cc.IsInvoke() {
					name, recv = cc.Method.Name(), cc.Value
				} else if sc := cc.StaticCallee(); sc != nil && len(cc.Args) > 0 {
					name, recv = sc.Name(), cc.Args[0]
				}
				if name != "Stop" || recv == nil {
					return false
				}
				_, isIter := iterElemType(recv.Type())
				return isIter && strings.Contains(describe_(recv), ".")
			}
			any := false
			for _, h := range withClosures(g) {
				eachInstr(h, false, func(in ssa.Instruction) {
					if isInnerStop(in) {
						any = true
					}
				})
			}
			if !any {
				continue
			}
			n++
			// own-body stops: a Defer in g (registered on every path: must-pass from entry) or direct calls on all paths
			leak := false
			for _, b := range g.Blocks {
				ret, ok := b.Instrs[len(b.Instrs)-1].(*ssa.Return)
				if !ok {
					continue
				}
				if reach, _ := reachable(g, nil, func(in ssa.Instruction) bool { return in == ssa.Instruction(ret) }, cutSpec{instr: isInnerStop}); reach {
					leak = true
				}
			}
			r.Check(!leak, fname(fn)+" | background goroutine releases the wrapped iterator", e.pos(g.Pos()), "every way out passes a Stop of the wrapped iterator", "the goroutine started by Stop can end without stopping the wrapped iterator (the only Stop calls sit on some branches or inside a closure another function may not run): the datastore iterator of a query that joined an in-flight drain is never released")
		}
	}
	if n == 0 {
		blind("background-drain-stops-inner: no adapter Stop with a background goroutine found")
	}
}

// ruleFilterChainShortCircuits: the filtering adapter evaluates its filters in order and stops at the first one that
// rejects the entry.  The engines rely on that: their chain ends with a stateful de-duplication filter that records
// every key it is shown, so it must only ever see entries the earlier filters accepted.
func ruleFilterChainShortCircuits(e *Engine, r *Reporter) {
	r.Rule("filter-chain-short-circuits", "in internal/iterator a filter of the chain is invoked for an entry only if every earlier filter accepted it: from one filter invocation the next is reachable only across the `accepted` edge", 1)
	n := 0
	for _, fn := range e.Fns {
		if short(pkgOf(fn)) != "internal/iterator" {
			continue
		}
		eachInstr(fn, false, func(in ssa.Instruction) {
			c, ok := in.(*ssa.Call)
			if !ok || c.Call.IsInvoke() || c.Call.StaticCallee() != nil {
				return
			}
			if _, isBuiltin := c.Call.Value.(*ssa.Builtin); isBuiltin {
				return
			}
			// a dynamic call of a func value returning (bool, error), inside a loop
			sig, ok := c.Call.Value.Type().Underlying().(*types.Signature)
			if !ok || sig.Results().Len() != 2 || !types.Identical(sig.Results().At(0).Type(), types.Typ[types.Bool]) || !isErrorType(sig.Results().At(1).Type()) {
				return
			}
			if loopHeader(c.Block()) == nil {
				return
			}
			// the invoked function is an element of a slice of filters (a chain), not the adapter's single validator
			fromChain := derivesFrom(c.Call.Value, func(v ssa.Value) bool {
				switch x := v.(type) {
				case *ssa.IndexAddr:
					_, isSl := derefType(x.X.Type()).Underlying().(*types.Slice)
					_, isSl2 := x.X.Type().Underlying().(*types.Slice)
					return isSl || isSl2
				case *ssa.Index:
					return true
				}
				return false
			})
			if !fromChain {
				return
			}
			n++
			accepted := func(f Fact) bool {
				if f.Kind != "bool" || !f.Positive {
					return false
				}
				ex, ok := unwrap(f.X).(*ssa.Extract)
				return ok && ex.Tuple == ssa.Value(c) && ex.Index == 0
			}
			ok2, _ := mustPassFrom(fn, c, c, cutSpec{edge: accepted})
			r.Check(ok2, fname(topLevel(fn))+" | next filter only after acceptance", e.instrPos(in), "the loop continues only on `passes`", "the next filter of the chain is invoked although the previous one rejected the entry: a stateful filter later in the chain (the engines' de-duplication filter) then records entries that were filtered out, and drops a later valid entry with the same key")
		})
	}
	if n == 0 {
		blind("filter-chain-short-circuits: no filter invocation loop found in internal/iterator")
	}
}

package main

// C27 (authentication) and C28 (continuation tokens).

import (
	"go/token"
	"go/types"
	"fmt"
	"strings"

	"golang.org/x/tools/go/ssa"
)

func ruleOIDC(e *Engine, r *Reporter) {
	r.Rule("oidc-parser-options", "RemoteOidcAuthenticator.Authenticate builds its JWT parser with exactly-RS256 valid methods, issued-at validation, required expiry and the configured audience, resolves keys only from the issuer's JWKS, and returns claims only behind a valid token, an accepted issuer and (when configured) an accepted subject", 5)
	fn := e.Func("internal/authn/oidc", "RemoteOidcAuthenticator.Authenticate")
	// options reaching NewParser
	var np *ssa.Call
	eachInstr(fn, false, func(in ssa.Instruction) {
		if c, ok := in.(*ssa.Call); ok {
			if g := c.Call.StaticCallee(); g != nil && g.Name() == "NewParser" {
				np = c
			}
		}
	})
	if np == nil {
		blind("oidc: jwt.NewParser call not found")
	}
	opts := describe_(np.Call.Args[0])
	want := map[string]string{
		`jwt.WithValidMethods(["RS256"])`: "only RS256 is accepted (no alg=none / HS256 confusion)",
		"jwt.WithIssuedAt()":               "tokens issued in the future are rejected",
		"jwt.WithExpirationRequired()":     "a token without expiry is rejected",
		"jwt.WithAudience([recv.Audience])": "the configured audience is required",
	}
	for w, why := range want {
		r.Check(strings.Contains(opts, w), "oidc parser option "+w, e.instrPos(np), why, "the JWT parser is built without "+w+" ("+why+" no longer holds); options: "+opts)
	}
	// unconditional: NewParser's options must not depend on a branch that can skip one (all appended before)
	// key function: resolves through recv.JWKs.Keyfunc
	keyOK := false
	// the key function: the func-typed argument of the parser's Parse* call — a literal closure, a bound method
	// value or a named function — resolved to its body
	var keyFns []*ssa.Function
	eachInstr(fn, false, func(in ssa.Instruction) {
		c, ok := in.(ssa.CallInstruction)
		if !ok {
			return
		}
		o := calleeObj(c)
		if o == nil || !strings.HasPrefix(o.Name(), "Parse") {
			return
		}
		for _, a := range c.Common().Args {
			if _, isSig := a.Type().Underlying().(*types.Signature); !isSig {
				continue
			}
			switch x := unwrap(a).(type) {
			case *ssa.MakeClosure:
				if f, ok := x.Fn.(*ssa.Function); ok {
					keyFns = append(keyFns, f)
					if f.Synthetic != "" { // bound method wrapper: look into the method itself
						if m, ok := f.Object().(*types.Func); ok {
							if mf := e.Prog.FuncValue(m); mf != nil {
								keyFns = append(keyFns, mf)
							}
						}
					}
				}
			case *ssa.Function:
				keyFns = append(keyFns, x)
			}
		}
	})
	for _, cl := range keyFns {
		eachInstr(cl, false, func(in ssa.Instruction) {
			if c, ok := in.(*ssa.Call); ok {
				if g := c.Call.StaticCallee(); g != nil && g.Name() == "Keyfunc" && strings.Contains(describe_(c.Call.Args[0]), "JWKs") {
					keyOK = true
				}
			}
		})
	}
	r.Check(keyOK, "oidc key function uses the issuer JWKS", e.pos(fn.Pos()), "keys come from oidc.JWKs", "the signing key is not resolved from the issuer's JWKS")
	// success returns
	n := 0
	for i, rs := range returnSites(fn) {
		if !rs.maySucceed() {
			continue
		}
		n++
		key := fmt.Sprintf("oidc success return #%d", i)
		gParse, _ := mustPass(fn, rs.At, cutSpec{edge: func(f Fact) bool {
			return f.Kind == "nil" && f.Positive && strings.Contains(describe_(f.X), ".Parse(")
		}})
		gValid, _ := mustPass(fn, rs.At, cutSpec{edge: func(f Fact) bool {
			return f.Kind == "bool" && f.Positive && strings.HasSuffix(describe_(f.X), ".Valid")
		}})
		gIss, _ := mustPass(fn, rs.At, cutSpec{edge: func(f Fact) bool {
			d := describe_(f.X)
			return (f.Kind == "call" || f.Kind == "bool") && f.Positive && (strings.Contains(d, "ContainsFunc") || strings.Contains(d, "WithIssuer")) && strings.Contains(d, "MainIssuer")
		}})
		// subjects: either none configured or accepted
		gSub, _ := mustPass(fn, rs.At, cutSpec{edge: func(f Fact) bool {
			d := describeFact(f)
			if strings.HasPrefix(d, "!nonempty(") && strings.Contains(d, "Subjects") {
				return true
			}
			dx := describe_(f.X)
			return (f.Kind == "call" || f.Kind == "bool") && f.Positive && (strings.Contains(dx, "ContainsFunc") || strings.Contains(dx, "WithSubject")) && strings.Contains(dx, "Subjects")
		}})
		r.Check(gParse && gValid && gIss && gSub, key, e.instrPos(rs.At), "behind parse ok, token.Valid, issuer accepted, subject accepted-or-unconfigured",
			fmt.Sprintf("claims are returned without all guards (parse error checked: %v, token.Valid: %v, issuer: %v, subject: %v)", gParse, gValid, gIss, gSub))
	}
	if n == 0 {
		r.Bad("oidc success return", e.pos(fn.Pos()), "no success return found")
	}
	// issuer/subject validators use WithIssuer / WithSubject of the iterated value
	for _, cl := range fn.AnonFuncs {
		eachInstr(cl, false, func(in ssa.Instruction) {
			c, ok := in.(*ssa.Call)
			if !ok {
				return
			}
			g := c.Call.StaticCallee()
			if g == nil || (g.Name() != "WithIssuer" && g.Name() != "WithSubject") {
				return
			}
			_, isParam := unwrap(c.Call.Args[0]).(*ssa.Parameter)
			r.Check(isParam, fmt.Sprintf("oidc %s validates the configured value", g.Name()), e.instrPos(in), "validator built from the configured value", "the claim validator is not built from the configured issuer/subject")
		})
	}
}

func rulePSK(e *Engine, r *Reporter) {
	r.Rule("psk-constant-time-all-keys", "PresharedKeyAuthenticator.Authenticate compares the token hash with every configured key hash through subtle.ConstantTimeCompare without early exit, and succeeds only when the accumulated match equals 1; the middleware rejects the request when Authenticate errs", 4)
	fn := e.Func("internal/authn/presharedkey", "PresharedKeyAuthenticator.Authenticate")
	// the comparison may sit in Authenticate or in a same-package helper it calls (one level)
	cmpAt, via := locateInRegion(fn, func(in ssa.Instruction) bool {
		c, ok := in.(*ssa.Call)
		if !ok {
			return false
		}
		g := c.Call.StaticCallee()
		return g != nil && g.Name() == "ConstantTimeCompare"
	})
	if cmpAt == nil {
		r.Bad("psk comparison", e.pos(fn.Pos()), "no subtle.ConstantTimeCompare: keys are compared in variable time or not at all")
		return
	}
	cmp := cmpAt.(*ssa.Call)
	hf := cmp.Parent()
	// the compare sits in a loop over the key hashes from which no return is reachable without finishing the loop
	h := loopHeader(cmp.Block())
	inLoop := h != nil
	earlyExit := false
	if inLoop {
		for _, rs := range returnSites(hf) {
			reach, _ := reachable(hf, cmp, func(in ssa.Instruction) bool { return in == rs.At }, cutSpec{instr: func(in ssa.Instruction) bool { return in.Block() == h && indexOf(h, in) == 0 }})
			if reach {
				earlyExit = true
			}
		}
	}
	r.Check(inLoop && !earlyExit, "psk compares all keys", e.instrPos(cmp), "loop over every configured hash, no early exit", "the comparison loop can exit early (or there is no loop): timing reveals which key matched / later keys are never compared")
	args := describe_(cmp.Call.Args[0]) + " vs " + describe_(cmp.Call.Args[1])
	if via != nil {
		for _, a := range via.Common().Args {
			args += " <- " + describe_(a)
		}
	}
	r.Check(strings.Contains(args, "sha256.Sum256") && strings.Contains(args, "validKeyHashes"), "psk compares token hash with configured hashes", e.instrPos(cmp), args, "ConstantTimeCompare is not applied to (hash of the presented token, configured key hash): "+args)
	// the hash covers the whole presented token: Sum256's argument is the extraction call's result itself
	eachInstr(hf, false, func(in ssa.Instruction) {
		c, ok := in.(*ssa.Call)
		if !ok {
			return
		}
		g := c.Call.StaticCallee()
		if g == nil || g.Name() != "Sum256" {
			return
		}
		src := unwrap(c.Call.Args[0])
		if cv, ok := src.(*ssa.Convert); ok {
			src = unwrap(cv.X)
		}
		if p, ok := src.(*ssa.Parameter); ok && via != nil { // the helper's token parameter: what the caller passes
			for i, q := range hf.Params {
				if q == p && i < len(via.Common().Args) {
					src = unwrap(via.Common().Args[i])
				}
			}
		}
		whole := false
		if ex, ok := src.(*ssa.Extract); ok {
			if call, ok := ex.Tuple.(*ssa.Call); ok {
				if o := calleeObj(call); o != nil && o.Name() == "AuthFromMD" {
					whole = true
				}
			}
		}
		r.Check(whole, "psk hashes the whole presented token", e.instrPos(in), "Sum256(AuthFromMD result)", "the value hashed is "+describe_(c.Call.Args[0])+", not the bearer token as extracted: a token that merely shares a part with a configured key can authenticate")
	})
	isMatchedIs1 := func(f Fact) bool {
		if f.Kind != "eq" || !f.Positive {
			return false
		}
		n, ok := constInt(f.Y)
		return ok && n == 1 && strings.Contains(describe_(f.X), "ConstantTimeCompare")
	}
	helperOK := true
	if via != nil {
		// the helper reports success only as (accumulated == 1)
		for _, rs := range returnSites(hf) {
			if len(rs.Results) != 1 {
				helperOK = false
				continue
			}
			res := unwrap(rs.Results[0])
			if bv, isC := constBool(res); isC && !bv {
				continue
			}
			if bo, ok := res.(*ssa.BinOp); ok && bo.Op == token.EQL {
				if n, ok := constInt(bo.Y); ok && n == 1 && strings.Contains(describe_(bo.X), "ConstantTimeCompare") {
					continue
				}
			}
			if g, _ := mustPass(hf, rs.At, cutSpec{edge: isMatchedIs1}); g {
				continue
			}
			helperOK = false
		}
	}
	for i, rs := range returnSites(fn) {
		if !rs.isSuccess() {
			continue
		}
		var g bool
		if via == nil {
			g, _ = mustPass(fn, rs.At, cutSpec{edge: isMatchedIs1})
		} else {
			g, _ = mustPass(fn, rs.At, cutSpec{edge: func(f Fact) bool {
				return f.Kind == "call" && f.Positive && f.Call == via
			}})
			g = g && helperOK
		}
		r.Check(g, fmt.Sprintf("psk success return #%d", i), e.instrPos(rs.At), "behind matched == 1", "authentication succeeds on a path where the accumulated comparison result is not tested to be 1")
	}
	// middleware
	mw := e.Func("internal/middleware/authn", "AuthFunc")
	okMW := false
	for _, cl := range mw.AnonFuncs {
		var auth *ssa.Call
		eachInstr(cl, false, func(in ssa.Instruction) {
			if c, ok := in.(*ssa.Call); ok && c.Call.IsInvoke() && c.Call.Method.Name() == "Authenticate" {
				auth = c
			}
		})
		if auth != nil {
			fails, found := errorLeadsToFailure(cl, auth)
			okMW = fails && found
		}
	}
	r.Check(okMW, "authn middleware denies on error", e.pos(mw.Pos()), "Authenticate error stops the request", "the middleware lets a request through although Authenticate returned an error")
}

func ruleTokens(e *Engine, r *Reporter) {
	r.Rule("token-decode-authenticated", "TokenEncoder.Decode base64-decodes and then decrypts, returning both errors; GCMEncrypter.Decrypt returns plaintext only from AEAD.Open (its error included); Encode is the mirror image; every paging command built by a server handler receives the server's encoder", 8)
	dec := e.Func("pkg/encoder", "TokenEncoder.Decode")
	var d1, d2 *ssa.Call
	eachInstr(dec, false, func(in ssa.Instruction) {
		if c, ok := in.(*ssa.Call); ok && c.Call.IsInvoke() {
			switch c.Call.Method.Name() {
			case "Decode":
				d1 = c
			case "Decrypt":
				d2 = c
			}
		}
	})
	r.Check(d1 != nil && d2 != nil, "TokenEncoder.Decode decodes then decrypts", e.pos(dec.Pos()), "both steps present", "TokenEncoder.Decode no longer both decodes and decrypts (tokens are accepted without authentication of their content)")
	if d1 != nil && d2 != nil {
		fails, found := errorLeadsToFailure(dec, d1)
		r.Check(fails && found, "TokenEncoder.Decode | decode error returned", e.instrPos(d1), "returned", "a base64 error does not stop decoding")
		r.Check(strings.Contains(describe_(d2.Call.Args[0]), "Decode("), "TokenEncoder.Decode | decrypts the decoded bytes", e.instrPos(d2), "Decrypt(decoded)", "Decrypt is not applied to the decoded token")
		ret := false
		for _, rs := range returnSites(dec) {
			if len(rs.Results) != 2 {
				continue
			}
			if strings.Contains(describe_(rs.Results[0]), "Decrypt(") && strings.Contains(describe_(rs.Results[1]), "Decrypt(") {
				ret = true
				continue
			}
			// every other return must be a failure (nil data, the decode error)
			if !isNilConst(rs.Results[0]) || isNilConst(rs.Results[1]) {
				ret = false
				break
			}
		}
		r.Check(ret, "TokenEncoder.Decode | returns Decrypt's verdict", e.pos(dec.Pos()), "plaintext and error come from Decrypt", "the result of Decode is not Decrypt's (plaintext, error) pair")
	}
	gd := e.Func("pkg/encrypter", "GCMEncrypter.Decrypt")
	openOK := false
	for _, rs := range returnSites(gd) {
		if len(rs.Results) == 2 && strings.Contains(describe_(rs.Results[0]), ".Open(") && strings.Contains(describe_(rs.Results[1]), ".Open(") {
			openOK = true
		}
	}
	// any other non-error return must be the empty-input passthrough
	otherOK := true
	for _, rs := range returnSites(gd) {
		if len(rs.Results) != 2 || !rs.isSuccess() {
			continue
		}
		g, _ := mustPass(gd, rs.At, cutSpec{edge: func(f Fact) bool {
			return strings.HasPrefix(describeFact(f), "!nonempty(arg0")
		}})
		if !g {
			otherOK = false
		}
	}
	r.Check(openOK && otherOK, "GCMEncrypter.Decrypt | plaintext only from AEAD.Open", e.pos(gd.Pos()), "authenticated decryption", "Decrypt can return data that did not pass AEAD.Open (tampered tokens would decode to some position)")
	ge := e.Func("pkg/encrypter", "GCMEncrypter.Encrypt")
	sealOK := false
	for _, rs := range returnSites(ge) {
		if len(rs.Results) == 2 && strings.Contains(describe_(rs.Results[0]), ".Seal(") {
			sealOK = true
		}
	}
	r.Check(sealOK, "GCMEncrypter.Encrypt | seals with a random nonce", e.pos(ge.Pos()), "AEAD.Seal", "Encrypt does not seal the data")
	// handlers pass the server's encoder to paging commands
	for _, spec := range []struct{ handler, opt string }{
		{"Server.Read", "WithReadQueryEncoder"}, {"Server.ReadChanges", "WithReadChangeQueryEncoder"}, {"Server.ListStores", "WithListStoresQueryEncoder"}, {"Server.ReadAuthorizationModels", "WithReadAuthModelsQueryEncoder"},
	} {
		fn := e.Func("pkg/server", spec.handler)
		ok := false
		eachInstr(fn, true, func(in ssa.Instruction) {
			c, isCall := in.(*ssa.Call)
			if !isCall {
				return
			}
			g := c.Call.StaticCallee()
			if g == nil || !strings.Contains(g.Name(), "Encoder") || !strings.HasPrefix(g.Name(), "With") {
				return
			}
			if strings.HasSuffix(describe_(c.Call.Args[0]), "recv.encoder") {
				ok = true
			}
		})
		r.Check(ok, fname(fn)+" | command uses the server's encoder", e.pos(fn.Pos()), "encoder option set from s.encoder", "the paging command is built without the server's token encoder (falls back to plain base64 although a key may be configured)")
	}
}

#!/bin/sh
# Builds the analyser offline from files on disk (x/tools v0.50.0 from the module cache, go1.26.8).
set -e
export PATH=/opt/veriftools/go1.26.8/bin:$PATH
export GOFLAGS=-mod=mod GOPROXY=off GOSUMDB=off GOTOOLCHAIN=local GOWORK=off
cd "$(dirname "$0")/fgalint"
mkdir -p ../bin ../evidence ../.cache
go build -o ../bin/fgalint.tmp . && mv ../bin/fgalint.tmp ../bin/fgalint
echo "built $(cd .. && pwd)/bin/fgalint"

#!/opt/veriftools/pyvenv/bin/python
import json, jsonschema, sys, glob
jsonschema.validate(json.load(open('/verif/MANIFEST.json')), json.load(open('/root/.vp/MANIFEST.schema.json')))
print('manifest ok')
s = json.load(open('/root/.vp/EVIDENCE.schema.json'))
for f in sorted(glob.glob('/verif/evidence/*.json')):
    jsonschema.validate(json.load(open(f)), s)
    print('evidence ok', f)
